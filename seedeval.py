#!/usr/bin/env python3
"""Run checks against a seeded change in a scratch worktree (never /repo):
   seedeval.py <seed-id> [<property> ...]     e.g. seedeval.py C08-1   or   seedeval.py C04-1 C04 C02
Applies seeded/<seed-id>/patch.diff to a scratch worktree of /repo's HEAD, runs ./check <property>
--tier quick with VERIF_REPO pointing at it, records which check raised the alarm, reverts."""
import json, os, subprocess, sys, time, re
VERIF = os.path.dirname(os.path.abspath(__file__))
sid = sys.argv[1]
props = sys.argv[2:] or [json.load(open("%s/seeded/%s/meta.json" % (VERIF, sid)))["property"]]
wt = os.environ.get("SEED_WT", "/tmp/seedwt/" + sid)
if not os.path.isdir(wt):
    subprocess.run(["git", "-C", "/repo", "worktree", "add", "--detach", wt, "HEAD"], check=True, stdout=subprocess.DEVNULL)
def sh(cmd):
    return subprocess.run(cmd, shell=True, cwd=wt, stdout=subprocess.PIPE, stderr=subprocess.STDOUT, text=True)
sh("git checkout -q -- . && git clean -fdq -e target && git checkout -q --detach main")
pf = "%s/seeded/%s/patch.rebased.diff" % (VERIF, sid)
if not os.path.exists(pf):
    pf = "%s/seeded/%s/patch.diff" % (VERIF, sid)
r = sh("git apply %s || git apply -3 %s" % (pf, pf))
if r.returncode != 0:
    print(sid, "PATCH DOES NOT APPLY", r.stdout); sys.exit(3)
rf = "%s/seeded/%s/result.json" % (VERIF, sid)
results = json.load(open(rf)) if os.path.exists(rf) else {}
for p in props:
    t0 = time.time()
    env = dict(os.environ, VERIF_REPO=wt, VERIF_JOBS=os.environ.get("VERIF_JOBS", "8"))
    q = subprocess.run([VERIF + "/check", p, "--tier", os.environ.get("VERIF_TIER", "quick")], cwd=VERIF, env=env, stdout=subprocess.PIPE, stderr=subprocess.STDOUT, text=True)
    viol = re.findall(r"^VIOLATION .*$", q.stdout, re.M)
    cex = re.findall(r"^counterexample in harness (\w+)", q.stdout, re.M)
    results[p] = {"exit": q.returncode, "caught": q.returncode == 1 and bool(viol), "harnesses": cex, "wall_s": round(time.time() - t0, 1),
                  "verif_commit": subprocess.run(["git", "-C", VERIF, "rev-parse", "--short", "HEAD"], stdout=subprocess.PIPE, text=True).stdout.strip(),
                  "tail": q.stdout[-800:] if q.returncode != 1 else ""}
    print(sid, p, "exit", q.returncode, "CAUGHT" if results[p]["caught"] else "MISSED/INCONCLUSIVE", cex, flush=True)
sh("git checkout -q -- . && git clean -fdq -e target")
json.dump(results, open(rf, "w"), indent=1)
