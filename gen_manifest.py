#!/usr/bin/env python3
"""Regenerate MANIFEST.json from checks_table.py (single source of truth)."""
import json, subprocess
from checks_table import PROPS, NOT_APPLICABLE, HOOK_COMMITS

ids = [json.loads(l)["id"] for l in open("/verif/properties.jsonl")]
checks = []
for pid in ids:
    if pid not in PROPS or not PROPS[pid].get("claimed", True):
        continue
    P = PROPS[pid]
    checks.append({
        "property_id": pid,
        "quick_cmd": "./check %s --tier quick" % pid,
        "thorough_cmd": "./check %s --tier thorough" % pid,
        "evidence_file": "/verif/evidence/%s.json" % pid,
        "replay_cmd_template": "./check %s --replay {path}" % pid,
        "engine": "kani-cbmc",
        "level_claimed": {"category": "model_checking", "text": P["level_text"], "design_ref": P.get("design_ref", "DESIGN.md section 4")},
        "level_note": P["level_note"],
        "technique": P.get("technique", "bounded symbolic execution of the compiled real code (Kani/CBMC + CaDiCaL SAT), symbolic inputs, native replay of counterexamples"),
    })
na = [{"property_id": pid, "reason": NOT_APPLICABLE.get(pid, "check not built yet in this round (work in progress)")} for pid in ids if pid not in [c["property_id"] for c in checks]]
man = {
    "version": 1,
    "setup_cmd": "./check --setup",
    "hooks": {
        "guard": "rustyyato_chess_verif",
        "enable": "RUSTFLAGS='--cfg rustyyato_chess_verif' - set by ./check for every cargo kani build of the harness crates (path dependencies on /repo)",
        "baseline_off_cmd": "cd /repo && cargo test --workspace --no-fail-fast --offline",
        "source_commits": HOOK_COMMITS,
        "add_only": True,
    },
    "engines": [{"name": "kani-cbmc", "path": "/verif/check", "serves_properties": [c["property_id"] for c in checks],
                 "kind_free_text": "bounded symbolic execution of the compiled real code (Kani 0.68 -> CBMC 6.11 -> CaDiCaL); harness crates under /verif/harness depend on /repo by path and are rebuilt from its working tree on every run"}],
    "checks": checks,
    "not_applicable": na,
    "notes": "All checks are one technique family (solver-based checking of the real code: Kani -> CBMC -> CaDiCaL over the compiled crates). Every property has a check; clauses that are NOT decided are named in the check's level_note / evidence.outside_bounds and in DESIGN.md section 9: "
             "C17 legality of book moves; C13 end-to-end symmetry of two searches (component lemmas only); C15 the std-HashMap repetition table; C06/C05 the FEN placement loop on symbolic bytes (token decoder, all other fields and validation are decided); C11/C12 compose a root-loop query and a one-level query by induction. "
             "Genuine defects found (14 fix: commits, 2 recorded known findings) are in known_findings.json; seeded changes and which check catches each are in seeded/*/result.json and DESIGN.md section 13.",
}
json.dump(man, open("/verif/MANIFEST.json", "w"), indent=1)
print("claimed:", [c["property_id"] for c in checks])
print("not_applicable:", [x["property_id"] for x in na])
