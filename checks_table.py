"""Which harness modules decide which property, with the kani flags, bounds and claim text that
go into the evidence file. Harness lists are read from the module source on every run."""

NODEF = ["--no-memory-safety-checks", "--no-overflow-checks", "--no-undefined-function-checks", "--no-assertion-reach-checks"]  # functional harnesses: assertions + UNWINDING assertions stay on (--no-default-checks would also drop the unwinding checks and silently truncate loops)
STUB = ["-Z", "stubbing"]

CRATES = {
    "core": {"setup_harness": "proofs::c18::c18_count"},
    "bmi2": {"rustflags": "--cfg target_feature=\"bmi2\" -Aexplicit_builtin_cfgs_in_flags", "setup_harness": "proofs::c18_bmi2::c18_bmi2_nth"},
    "engine": {"setup_harness": "proofs::c16::c16_move_roundtrip"},
}

PROPS = {}
NOT_APPLICABLE = {}
HOOK_COMMITS = ["f557953", "95d4aac", "0dd5fab", "0711d5a"]

PROPS["C18"] = {
    "title": "Bitboards behave as sets of squares",
    "groups": [
        {"crate": "core", "module": "c18", "timeout_q": 300},
        {"crate": "bmi2", "module": "c18_bmi2", "flags": STUB, "timeout_q": 600},
    ],
    "functions": ["chess_bitboard::BitBoard::{from_pos,from_file,from_rank,contains,with,cleared,set,clear,or,and,xor,not,diff,"
                  "shift_up,shift_down,shift_left,shift_right,pop,pop_unchecked,iter,count,any,none,all,some,flip_ranks}",
                  "BitBoardIter::{next,size_hint,nth (default path and the shipped BMI2/PDEP path)}",
                  "FromIterator<Pos>, FromIterator<BitBoard>, From<Pos|File|Rank|u64|Option<T>>, ops.rs operator impls"],
    "bounds": "all 2^64 boards (symbolic u64), pairs of boards, symbolic probe square; FromIterator: <= 4 symbolic items; "
              "nth: n unrestricted usize on the BMI2 path, n <= 16 on the std default path; unwind 66 for the 64-square loops",
    "outside": "FromIterator with more than 4 items (the fold is item-wise); Debug/Binary/Hex formatting",
    "stubs": ["core::arch::x86_64::_pdep_u64 -> Intel SDM pseudo-code model (BMI2 harness only)"],
    "assumptions": ["PDEP behaves as the Intel SDM pseudo-code (trusted model used only for the BMI2 nth harness)"],
    "level_text": "Every BitBoard/BitBoardIter operation is executed symbolically (compiled real code) on a fully symbolic u64 "
                  "board (pairs of boards, symbolic probe square, symbolic n) and compared with the bit-level set definition; "
                  "the SAT solver covers all 2^64 boards at once instead of the single/two-square boards the quantifier text "
                  "samples. Both nth implementations are covered: the std default path and the shipped BMI2/PDEP path.",
    "level_note": "Bounds: FromIterator <= 4 items, nth default path n <= 8 (std's loop), iteration by one-step induction "
                  "(next yields the minimum and removes exactly it). PDEP is modelled by the Intel SDM pseudo-code; "
                  "counterexamples are replayed natively on the real instruction.",
    "design_ref": "DESIGN.md section 4 C18",
}

PROPS["C19"] = {
    "title": "Square, file, rank, piece and move text forms round-trip",
    "groups": [{"crate": "core", "module": "c19", "timeout_q": 300}],
    "functions": ["Pos::{from_u8,const_from_u8,new,file,rank,to_u8,shift_*,flip_rank,all,from_ascii_bytes,from_str,Display}",
                  "File::{from_u8,shift_*,dist_to,side,lower_letter,upper_letter,all,iter,from_ascii_byte(s),from_str,Display}",
                  "Rank::{from_u8,shift_*,dist_to,flip,all,iter,from_ascii_byte(s),from_str,Display}",
                  "Piece/PromotionPiece::{from_u8,to_piece,from_ascii_byte(s),from_str}", "Color/Side::{from_u8,not,all}",
                  "ChessMove::{from_ascii_bytes,from_str,Display}", "AllColorIter/AllSideIter/AllPieceIter/AllFileIter/AllRankIter/AllPosIter/FileIter/RankIter"],
    "bounds": "all values of every finite type (symbolic); parsers: every byte string of every length 0..=8 (symbolic bytes and length); "
              "FromStr: every ASCII string of length <= 5; enum iterators: every sequence of 4 operations from {next,next_back,nth(n),nth_back(n),size_hint} with symbolic n",
    "outside": "byte strings longer than 8 (rejected by fixed-arity slice patterns); non-ASCII &str for FromStr (delegates to the byte parser); iterator op sequences longer than 4 (the state space of a Range<u8> iterator over <= 8 items is closed under the ops, 4 ops reach every (start,end) pair for n<=2 and every shape class for n<=8)",
    "level_text": "All conversions, neighbour steps, parsers, Display->parse round trips and enum iterators are executed symbolically; the solver "
                  "covers every value / every byte string up to length 8 (not just the 65536 two-byte strings and the move alphabet).",
    "level_note": "Display goes through the real core::fmt into a fixed 16-byte sink. Slice-iterator model = core::slice::Iter over [0..n).",
    "design_ref": "DESIGN.md section 4 C19",
}

PROPS["C14"] = {
    "title": "Scores form a total order matching game-theoretic preference",
    "groups": [{"crate": "engine", "module": "c14", "timeout_q": 300}],
    "functions": ["chess_engine::Score::{cmp,partial_cmp,eq,ne,lt,le,gt,ge,max,min,kind}"],
    "bounds": "none beyond the types: three symbolic scores over all 5 variants, every u16 mate distance and every i32 numeric value",
    "outside": "Debug rendering of scores",
    "level_text": "The real Ord/PartialOrd/PartialEq code of Score is executed on three fully symbolic scores and compared with a "
                  "lexicographic reference rank; order axioms (duality, transitivity, totality), the preference chain and agreement of "
                  "==,<,<=,>,>=,max,min with cmp are decided for all values at once (complete in the domain, no sampling).",
    "level_note": "The bound is the type itself. Trusted: the 12-line reference rank in the harness.",
    "design_ref": "DESIGN.md section 4 C14",
}
PROPS["C16"] = {
    "title": "Stable-ABI move and score encodings are lossless",
    "groups": [{"crate": "engine", "module": "c16", "timeout_q": 300}],
    "functions": ["chess_api::StableChessMove <-> ChessMove (From both ways)", "chess_api::EvaluatedMove::{new,chess_move,score} (StableOptionalChessMove, StableScore match tables)"],
    "bounds": "none beyond the types: all 64x64x5 moves, 'no move', every score (all u16 / i32 payloads) - symbolic",
    "outside": "the dlopen / abi_stable trait-object boundary itself (FFI); layout compatibility is abi_stable's derive",
    "level_text": "All five match tables of the ABI mirror types are executed on symbolic moves/scores; the solver shows decode(encode(x)) == x "
                  "for every value (the quantifier text samples numeric scores; here every i32 is covered).",
    "level_note": "abi_stable compiles under Kani; the conversions are ordinary Rust. Complete in the domain.",
    "design_ref": "DESIGN.md section 4 C16",
}

PROPS["C08"] = {
    "title": "Slider attack lookup equals ray casting for every square and occupancy",
    "groups": [{"crate": "core", "module": "c08", "timeout_q": 300, "timeout_t": 3000}],
    "functions": ["chess_lookup::rook_moves", "chess_lookup::bishop_moves", "rook_moves::{MOVES_MAGIC,SOLUTIONS}", "bishop_moves::{MOVES_MAGIC,SOLUTIONS}"],
    "bounds": "none: 128 queries (piece x square), each over all 2^64 occupancies (symbolic u64); ray walk unwound 7 steps (board edge)",
    "outside": "agreement with a re-run of the randomised, multi-threaded magic search of chess-lookup-generator (not encodable; the checked-in tables are compared with the definition instead, which is the stronger statement)",
    "level_text": "For each of the 64 squares and both sliders the real lookup (mask, magic multiply, shift, offset, table read over the real 2x262144-word tables) "
                  "is compared by the SAT solver with square-by-square ray casting for ALL 2^64 occupancies - independence from off-ray squares is decided, not sampled - "
                  "and the index is shown in range (bounds check + the crate's debug_assert). Complete in its domain.",
    "level_note": "Square concrete per query (constant multiplier); thorough tier adds two single queries with a symbolic square. Kani default checks on.",
    "design_ref": "DESIGN.md section 4 L0/C08",
}

PROPS["C09"] = {
    "title": "Geometry tables and constants equal their definitions",
    "groups": [{"crate": "core", "module": "c09", "timeout_q": 600}],
    "functions": ["chess_lookup::{knight_moves,king_moves,rook_rays,bishop_rays,pawn_quiets,pawn_attacks,pawn_attacks_moves,pawn_moves,between,line,distance}",
                  "chess_lookup constants: ADJACENT_FILES, ADJACENT_RANKS, CASTLE_MOVES, PAWN_DOUBLE_*, BACKRANK(_BB), ROOK_CASTLE_*, CASTLE_ROOK_START/END, PROMOTION_RANK, *_CASTLE_(SAFE_)FILES",
                  "chess_lookup_generator::{knight_moves,king_moves,rook_rays,bishop_rays,pawn_attacks,pawn_quiets}", "Color::{enpassant_capture_rank,enpassant_pawn_rank}"],
    "bounds": "none: symbolic square / pair of squares / colour / file / rank; pawn helpers over all 2^64 occupancies (not only the 2^k relevant ones)",
    "outside": "chess_lookup_generator::between()/line() build 4096-element Vecs through iterator chains (heap + 4096x iterator unrolling) - not encoded; the between/line tables are instead compared with the S-level definition for all 64x64 pairs, which pins every entry",
    "level_text": "Every geometry accessor and constant is compared with a file/rank-arithmetic definition (explicit 0<=f,r<8 guards, so no wrap-around by construction) "
                  "for a symbolic square, pair and colour; the solver covers all squares / 4096 pairs / 2^64 occupancies in one query each. "
                  "Tables are also compared with the generator's per-square functions.",
    "level_note": "Complete in the domain for the table-vs-definition clause. Generator agreement covers the six per-square generator functions; between()/line() generators are not encoded (stated).",
    "design_ref": "DESIGN.md section 4 L0/C09",
}

PROPS["C20"] = {
    "title": "Per-thread tracing override is isolated from other threads",
    "groups": [{"crate": "engine", "module": "c20", "timeout_q": 600, "timeout_t": 3000}],
    "functions": ["tracing_enabled::{enable,disable,toggle,local_enable,local_disable,local_toggle,local_take,restore,is_enabled}"],
    "bounds_quick": "two threads, sequentialised at operation granularity; every schedule of 4 operations (thread x 9 operations per step, symbolic) from the initial state; "
                    "PLUS a one-step induction from every state (global flag x 3x3 overrides) x every (thread, operation), which extends the claim to schedules of any length; take/restore round trip with 2+2 arbitrary surrounding operations",
    "bounds_thorough": "as quick, plus every schedule of 8 operations",
    "outside": "real OS threads and the memory model: the shared state is ONE AtomicBool accessed once per operation (Release store / fetch_xor / Acquire load), so per-location coherence makes operation-granularity interleaving complete; "
               "that std's thread_local! gives each thread its own cell is assumed (that is what the hook replaces); GlobalEnable's Layer impl (calls is_enabled)",
    "stubs": ["hook (cfg rustyyato_chess_verif): thread_local! LOCAL_ENABLED replaced by a two-slot cell array; the harness selects the current slot before each call"],
    "assumptions": ["sequential consistency of a single atomic location", "std thread_local! isolation between threads"],
    "level_text": "All ten functions of tracing-enabled are executed symbolically, unmodified, on behalf of two sequentialised threads; after every step of a symbolic schedule each thread's real is_enabled() "
                  "is compared with a tri-state model, the other thread's override is shown untouched, and take..restore returns the saved override. A one-step query from every state makes the result independent of schedule length.",
    "level_note": "Threads are sequentialised at operation granularity (Kani has no threads); the thread-local is replaced by a hook-selected slot. Real preemption inside an operation is not executed: each operation accesses the one shared atomic at most once.",
    "design_ref": "DESIGN.md section 4 C20",
}

# index of the fixed (side to move, enemy king square) shape = turn*64 + square. White to move with the
# enemy king on e8 = 60, Black to move with the enemy king on e1 = 64 + 4 = 68.
C02_FAM = {"pattern": r"_(?:ek|k)_(\d+)$", "count": 1, "always": {"*": [60]}, "thorough_all": False, "thorough_count": 6}
C02_GRP = {"crate": "core", "module": "c02", "flags": NODEF + STUB, "timeout_q": 1200, "timeout_t": 3000, "mem_q": 8}
PROPS["C04"] = {
    "title": "Position hash is a pure function of the position",
    "groups": [{"crate": "core", "module": "c04", "timeout_q": 900, "timeout_t": 3000},
               # the make-move step of the hash invariant lives in the C02 successor harnesses (hash delta assertion)
               dict(C02_GRP, only="^c02_.*_ek_", seeded_family=dict(C02_FAM, count=0))],
    "functions": ["chess_lookup::{zobrist,castle_rights_zobrist,en_passant_zobrist,turn_zobrist} over the real key tables",
                  "chess_movegen::Board::{zobrist,standard}, PartialEq/Hash for Board, BoardBuilder::{place,remove}",
                  "make-move and parser parts of the invariant: see C02/C03 (c02 harnesses assert piece_hash == spec) and C05/C06"],
    "bounds": "none beyond the types: two symbolic key indices over all 794 keys (all pairs in one query); placements = arbitrary well-formed 8-bitboard partitions (not only valid chess positions); 64-square xor loop fully unwound",
    "outside": "collision-freeness of the XOR of several keys (not claimed by the property); the engine's repetition table keyed on the hash (C15)",
    "stubs": [],
    "assumptions": ["the invariant piece_hash == XOR of piece keys is an inductive invariant: base = standard()/empty builder/parser (C05/C06 harness), steps = place/remove (here) and make-move (C02/C03 harness)"],
    "level_text": "Key distinctness/non-zero is decided for all 794x793 pairs by one query over the real tables. The hash invariant is shown inductive (one symbolic step of place/remove from an arbitrary placement; make-move and parser steps in C02/C05), "
                  "and Eq/Hash agreement is decided for two symbolic boards: equal boards hash equal regardless of cached data and clocks, a difference in exactly one of turn/rights/en-passant changes the hash, and Hash feeds exactly one u64 (zobrist()).",
    "level_note": "Transposition independence follows from the invariant (the hash is a function of the fields), not from exploring move sequences.",
    "design_ref": "DESIGN.md section 4 C04",
}

C02_STUBS = ["chess_lookup::{between,rook_rays,bishop_rays,knight_moves,pawn_attacks_moves} -> loop-free geometry (spec/fast.rs), proven equal to the loop definitions by the lemmas harnesses and to the real tables by C09",
             "chess_movegen::Board::is_legal -> the reference rules' answer for exactly that board and move (licensed by C01/C10); the stub asserts it is asked about the right board and move",
             "chess_lookup::zobrist -> injective abstract key function in the make-move queries (CBMC over-approximates symbolic reads of the real key table inside these large queries: spurious, non-replaying counterexamples); the real key table is decided in C04's own harnesses"]
C02_ASSUME = ["validity predicate V (C06's list + no pawn on rank 1/8) on the pre-state", "clock values < 65535 (the property's own bound)",
              "<= 8 of the mover's sliders aligned with the enemy king after the move (loop bound of the incremental check/pin code; unwinding assertions on)"]
C02_BOUNDS_Q = ("per query: side to move and ENEMY king square concrete (index = turn*64+square), everything else symbolic: all placements of all other pieces incl. the mover's king, rights, en-passant file, clocks, the move (from,to,promotion - legal AND illegal triples) "
                "and the pre-state's cached pin/check/hash values. quick: 6 piece kinds x {White to move, enemy king e8} + 1 VERIF_SEED-chosen shape per kind")
C02_BOUNDS_T = C02_BOUNDS_Q.replace("+ 1 VERIF_SEED-chosen shape per kind", "+ 6 VERIF_SEED-chosen shapes per kind")
PROPS["C02"] = {
    "title": "Applying a legal move yields the correct successor position",
    "groups": [dict(C02_GRP, only="^c02_", seeded_family=C02_FAM)],
    "functions": ["chess_movegen::Board::{move_new,move_mut,move_into,move_unchecked,move_unchecked_mut,move_unchecked_into,xor}", "CastleRights::remove_for_sq + CASTLE_RIGHTS_PER_SQ", "RawBoard::{xor,piece_of,piece_of_unchecked}",
                  "chess_lookup constants CASTLE_MOVES, PAWN_DOUBLE_MOVE, BACKRANK_BB, ROOK_CASTLE_*, PROMOTION_RANK (real)"],
    "bounds_quick": C02_BOUNDS_Q, "bounds_thorough": C02_BOUNDS_T,
    "outside": "enemy-king squares not selected in this run (128 shapes exist per kind; the thorough tier samples more, no tier runs all 768 = ~5 h); more than 8 aligned sliders; clocks at 65535; Display text of the successor",
    "stubs": C02_STUBS, "assumptions": C02_ASSUME,
    "level_text": "The real make-move code runs on a symbolic valid position and a symbolic (from,to,promotion) triple; the checked operation must accept exactly the triples the reference rules call legal, and every field of the result "
                  "(all eight piece/colour sets, side to move, castling rights, en-passant marker, both clocks, hash delta) must equal the reference successor; the receiver is untouched. The three checked wrappers are separately shown to be pure gates "
                  "over a free legality oracle (refusal leaves receiver/output slot bit-identical). The solver covers all placements and moves per shape at once - castling, en passant, promotions, rook captures on home squares are just values of the move.",
    "level_note": "Histories are covered by induction: the c03_inc harnesses show V is closed under legal moves. Per query the enemy king's square is a constant (measured: fully symbolic exceeds 12 GB).",
    "design_ref": "DESIGN.md section 4 C02",
}
PROPS["C03"] = {
    "title": "Check, mate and draw status are right; incremental state never goes stale",
    "groups": [dict(C02_GRP, only="^c03_", seeded_family=dict(C02_FAM, always={"*": [60], "update_pin_info": [4, 124]}))],
    "functions": ["chess_movegen::Board::move_unchecked_into (incremental checkers/pinned: direct knight/pawn checks, promotion, en-passant, castling rook, aligned sliders loop)", "Board::update_pin_info (from scratch, used by parser and builder)",
                  "Board::{in_check,state}", "reference pins/checkers (x-ray form) == ray-walking form"],
    "bounds_quick": C02_BOUNDS_Q + "; from-scratch query: side to move and the MOVER's king square concrete (e1/White, e8/Black + 1 seeded), <= 8 enemy sliders on the king's rays; state(): emptiness of the move list, checkers, half-move clock all free",
    "bounds_thorough": C02_BOUNDS_T + "; from-scratch query: 8 seeded king squares",
    "outside": "shapes not selected (see C02); Display/Debug text renderings (core::fmt is not executed symbolically: all observers are functions of the fields, and every field of a moved board is shown equal to the from-scratch value); the link 'move list empty <=> no legal move' is C01 + C10",
    "stubs": C02_STUBS + ["chess_movegen::Board::legals -> move list whose emptiness is a free boolean (state() classification query only)"], "assumptions": C02_ASSUME,
    "level_text": "After every legal move of a symbolic valid position the incrementally maintained checkers and pinned sets are compared with from-scratch reference definitions on the successor (direct, discovered, castling-rook, promotion and en-passant-discovered checks are just values of the move; cover witnesses show they are inside the space), "
                  "the from-scratch update_pin_info is compared with the same definitions, in_check() with 'king attacked', and state() with the classification table for all combinations of (no move, in check, clock). Closure of the validity predicate under legal moves is shown here too.",
    "level_note": "Moved board == rebuilt board is decided field by field (placement/rights/ep/clocks in C02, hash in C02/C04, pinned/checkers here, parser side in C05/C06), not by rendering text.",
    "design_ref": "DESIGN.md section 4 C03",
}

PROPS["LEM"] = {"title": "internal: F-level stubs == S-level geometry", "claimed": False,
                "groups": [{"crate": "core", "module": "lemmas", "timeout_q": 600}]}

# concretised (side to move, king square) index = turn*64 + square.  e1 = 4, e8 = 60.
KING_ALWAYS = {"*": [], "king": [4, 64 + 60]}
PROPS["C01"] = {
    "claimed": False,
    "title": "Generated moves are exactly the legal moves of chess",
    "groups": [
        {"crate": "core", "module": "lemmas", "timeout_q": 600},
        {"crate": "core", "module": "c01_units", "flags": NODEF + STUB, "timeout_q": 600, "timeout_t": 3000, "mem_q": 10,
         "seeded_family": {"pattern": r"_k_(\d+)$", "count": 2, "always": KING_ALWAYS}},
    ],
}
