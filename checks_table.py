"""Which harness modules decide which property, with the kani flags, bounds and claim text that
go into the evidence file. Harness lists are read from the module source on every run."""

NODEF = ["--no-memory-safety-checks", "--no-overflow-checks", "--no-undefined-function-checks", "--no-assertion-reach-checks"]  # functional harnesses: assertions + UNWINDING assertions stay on (--no-default-checks would also drop the unwinding checks and silently truncate loops)
STUB = ["-Z", "stubbing"]

CRATES = {
    "core": {"setup_harness": "proofs::c18::c18_count"},
    "bmi2": {"rustflags": "--cfg target_feature=\"bmi2\" -Aexplicit_builtin_cfgs_in_flags", "setup_harness": "proofs::c18_bmi2::c18_bmi2_nth"},
    "engine": {"setup_harness": "proofs::c16::c16_move_roundtrip"},
}

PROPS = {}
NOT_APPLICABLE = {}
HOOK_COMMITS = ["f557953", "95d4aac", "0dd5fab", "0711d5a", "84d23c1", "4aa2857", "62a6e25", "b4c61b8", "537c82c", "dd96c50"]

PROPS["C18"] = {
    "title": "Bitboards behave as sets of squares",
    "groups": [
        {"crate": "core", "module": "c18", "timeout_q": 300},
        {"crate": "bmi2", "module": "c18_bmi2", "flags": STUB, "timeout_q": 600},
    ],
    "functions": ["chess_bitboard::BitBoard::{from_pos,from_file,from_rank,contains,with,cleared,set,clear,or,and,xor,not,diff,"
                  "shift_up,shift_down,shift_left,shift_right,pop,pop_unchecked,iter,count,any,none,all,some,flip_ranks}",
                  "BitBoardIter::{next,size_hint,nth (default path and the shipped BMI2/PDEP path)}",
                  "FromIterator<Pos>, FromIterator<BitBoard>, From<Pos|File|Rank|u64|Option<T>>, ops.rs operator impls"],
    "bounds": "all 2^64 boards (symbolic u64), pairs of boards, symbolic probe square; FromIterator: <= 4 symbolic items; "
              "nth: n unrestricted usize on the BMI2 path, n <= 16 on the std default path; unwind 66 for the 64-square loops",
    "outside": "FromIterator with more than 4 items (the fold is item-wise); Debug/Binary/Hex formatting",
    "stubs": ["core::arch::x86_64::_pdep_u64 -> Intel SDM pseudo-code model (BMI2 harness only)"],
    "assumptions": ["PDEP behaves as the Intel SDM pseudo-code (trusted model used only for the BMI2 nth harness)"],
    "level_text": "Every BitBoard/BitBoardIter operation is executed symbolically (compiled real code) on a fully symbolic u64 "
                  "board (pairs of boards, symbolic probe square, symbolic n) and compared with the bit-level set definition; "
                  "the SAT solver covers all 2^64 boards at once instead of the single/two-square boards the quantifier text "
                  "samples. Both nth implementations are covered: the std default path and the shipped BMI2/PDEP path.",
    "level_note": "Bounds: FromIterator <= 4 items, nth default path n <= 8 (std's loop), iteration by one-step induction "
                  "(next yields the minimum and removes exactly it). PDEP is modelled by the Intel SDM pseudo-code; "
                  "counterexamples are replayed natively on the real instruction.",
    "design_ref": "DESIGN.md section 4 C18",
}

PROPS["C19"] = {
    "title": "Square, file, rank, piece and move text forms round-trip",
    "groups": [{"crate": "core", "module": "c19", "timeout_q": 300}],
    "functions": ["Pos::{from_u8,const_from_u8,new,file,rank,to_u8,shift_*,flip_rank,all,from_ascii_bytes,from_str,Display}",
                  "File::{from_u8,shift_*,dist_to,side,lower_letter,upper_letter,all,iter,from_ascii_byte(s),from_str,Display}",
                  "Rank::{from_u8,shift_*,dist_to,flip,all,iter,from_ascii_byte(s),from_str,Display}",
                  "Piece/PromotionPiece::{from_u8,to_piece,from_ascii_byte(s),from_str}", "Color/Side::{from_u8,not,all}",
                  "ChessMove::{from_ascii_bytes,from_str,Display}", "AllColorIter/AllSideIter/AllPieceIter/AllFileIter/AllRankIter/AllPosIter/FileIter/RankIter"],
    "bounds": "all values of every finite type (symbolic); parsers: every byte string of every length 0..=8 (symbolic bytes and length); "
              "FromStr: every ASCII string of length <= 5; enum iterators: every sequence of 4 operations from {next,next_back,nth(n),nth_back(n),size_hint} with symbolic n",
    "outside": "byte strings longer than 8 (rejected by fixed-arity slice patterns); non-ASCII &str for FromStr (delegates to the byte parser); iterator op sequences longer than 4 (the state space of a Range<u8> iterator over <= 8 items is closed under the ops, 4 ops reach every (start,end) pair for n<=2 and every shape class for n<=8)",
    "level_text": "All conversions, neighbour steps, parsers, Display->parse round trips and enum iterators are executed symbolically; the solver "
                  "covers every value / every byte string up to length 8 (not just the 65536 two-byte strings and the move alphabet).",
    "level_note": "Display goes through the real core::fmt into a fixed 16-byte sink. Slice-iterator model = core::slice::Iter over [0..n).",
    "design_ref": "DESIGN.md section 4 C19",
}

PROPS["C14"] = {
    "title": "Scores form a total order matching game-theoretic preference",
    "groups": [{"crate": "engine", "module": "c14", "timeout_q": 300}],
    "functions": ["chess_engine::Score::{cmp,partial_cmp,eq,ne,lt,le,gt,ge,max,min,kind}"],
    "bounds": "none beyond the types: three symbolic scores over all 5 variants, every u16 mate distance and every i32 numeric value",
    "outside": "Debug rendering of scores",
    "level_text": "The real Ord/PartialOrd/PartialEq code of Score is executed on three fully symbolic scores and compared with a "
                  "lexicographic reference rank; order axioms (duality, transitivity, totality), the preference chain and agreement of "
                  "==,<,<=,>,>=,max,min with cmp are decided for all values at once (complete in the domain, no sampling).",
    "level_note": "The bound is the type itself. Trusted: the 12-line reference rank in the harness.",
    "design_ref": "DESIGN.md section 4 C14",
}
PROPS["C16"] = {
    "title": "Stable-ABI move and score encodings are lossless",
    "groups": [{"crate": "engine", "module": "c16", "timeout_q": 300}],
    "functions": ["chess_api::StableChessMove <-> ChessMove (From both ways)", "chess_api::EvaluatedMove::{new,chess_move,score} (StableOptionalChessMove, StableScore match tables)"],
    "bounds": "none beyond the types: all 64x64x5 moves, 'no move', every score (all u16 / i32 payloads) - symbolic",
    "outside": "the dlopen / abi_stable trait-object boundary itself (FFI); layout compatibility is abi_stable's derive",
    "level_text": "All five match tables of the ABI mirror types are executed on symbolic moves/scores; the solver shows decode(encode(x)) == x "
                  "for every value (the quantifier text samples numeric scores; here every i32 is covered).",
    "level_note": "abi_stable compiles under Kani; the conversions are ordinary Rust. Complete in the domain.",
    "design_ref": "DESIGN.md section 4 C16",
}

PROPS["C08"] = {
    "title": "Slider attack lookup equals ray casting for every square and occupancy",
    "groups": [{"crate": "core", "module": "c08", "timeout_q": 300, "timeout_t": 3000}],
    "functions": ["chess_lookup::rook_moves", "chess_lookup::bishop_moves", "rook_moves::{MOVES_MAGIC,SOLUTIONS}", "bishop_moves::{MOVES_MAGIC,SOLUTIONS}"],
    "bounds": "none: 128 queries (piece x square), each over all 2^64 occupancies (symbolic u64); ray walk unwound 7 steps (board edge)",
    "outside": "agreement with a re-run of the randomised, multi-threaded magic search of chess-lookup-generator (not encodable; the checked-in tables are compared with the definition instead, which is the stronger statement)",
    "level_text": "For each of the 64 squares and both sliders the real lookup (mask, magic multiply, shift, offset, table read over the real 2x262144-word tables) "
                  "is compared by the SAT solver with square-by-square ray casting for ALL 2^64 occupancies - independence from off-ray squares is decided, not sampled - "
                  "and the index is shown in range (bounds check + the crate's debug_assert). Complete in its domain.",
    "level_note": "Square concrete per query (constant multiplier); thorough tier adds two single queries with a symbolic square. Kani default checks on.",
    "design_ref": "DESIGN.md section 4 L0/C08",
}

PROPS["C09"] = {
    "title": "Geometry tables and constants equal their definitions",
    "groups": [{"crate": "core", "module": "c09", "timeout_q": 600}],
    "functions": ["chess_lookup::{knight_moves,king_moves,rook_rays,bishop_rays,pawn_quiets,pawn_attacks,pawn_attacks_moves,pawn_moves,between,line,distance}",
                  "chess_lookup constants: ADJACENT_FILES, ADJACENT_RANKS, CASTLE_MOVES, PAWN_DOUBLE_*, BACKRANK(_BB), ROOK_CASTLE_*, CASTLE_ROOK_START/END, PROMOTION_RANK, *_CASTLE_(SAFE_)FILES",
                  "chess_lookup_generator::{knight_moves,king_moves,rook_rays,bishop_rays,pawn_attacks,pawn_quiets}", "Color::{enpassant_capture_rank,enpassant_pawn_rank}"],
    "bounds": "none: symbolic square / pair of squares / colour / file / rank; pawn helpers over all 2^64 occupancies (not only the 2^k relevant ones)",
    "outside": "chess_lookup_generator::between()/line() build 4096-element Vecs through iterator chains (heap + 4096x iterator unrolling) - not encoded; the between/line tables are instead compared with the S-level definition for all 64x64 pairs, which pins every entry",
    "level_text": "Every geometry accessor and constant is compared with a file/rank-arithmetic definition (explicit 0<=f,r<8 guards, so no wrap-around by construction) "
                  "for a symbolic square, pair and colour; the solver covers all squares / 4096 pairs / 2^64 occupancies in one query each. "
                  "Tables are also compared with the generator's per-square functions.",
    "level_note": "Complete in the domain for the table-vs-definition clause. Generator agreement covers the six per-square generator functions; between()/line() generators are not encoded (stated).",
    "design_ref": "DESIGN.md section 4 L0/C09",
}

PROPS["C20"] = {
    "title": "Per-thread tracing override is isolated from other threads",
    "groups": [{"crate": "engine", "module": "c20", "timeout_q": 600, "timeout_t": 3000}],
    "functions": ["tracing_enabled::{enable,disable,toggle,local_enable,local_disable,local_toggle,local_take,restore,is_enabled}"],
    "bounds_quick": "two threads, sequentialised at operation granularity; every schedule of 4 operations (thread x 9 operations per step, symbolic) from the initial state; "
                    "PLUS a one-step induction from every state (global flag x 3x3 overrides) x every (thread, operation), which extends the claim to schedules of any length; take/restore round trip with 2+2 arbitrary surrounding operations",
    "bounds_thorough": "as quick, plus every schedule of 8 operations",
    "outside": "real OS threads and the memory model: the shared state is ONE AtomicBool accessed once per operation (Release store / fetch_xor / Acquire load), so per-location coherence makes operation-granularity interleaving complete; "
               "that std's thread_local! gives each thread its own cell is assumed (that is what the hook replaces); GlobalEnable's Layer impl (calls is_enabled)",
    "stubs": ["hook (cfg rustyyato_chess_verif): thread_local! LOCAL_ENABLED replaced by a two-slot cell array; the harness selects the current slot before each call"],
    "assumptions": ["sequential consistency of a single atomic location", "std thread_local! isolation between threads"],
    "level_text": "All ten functions of tracing-enabled are executed symbolically, unmodified, on behalf of two sequentialised threads; after every step of a symbolic schedule each thread's real is_enabled() "
                  "is compared with a tri-state model, the other thread's override is shown untouched, and take..restore returns the saved override. A one-step query from every state makes the result independent of schedule length.",
    "level_note": "Threads are sequentialised at operation granularity (Kani has no threads); the thread-local is replaced by a hook-selected slot. Real preemption inside an operation is not executed: each operation accesses the one shared atomic at most once.",
    "design_ref": "DESIGN.md section 4 C20",
}

# index of the fixed (side to move, enemy king square) shape = turn*64 + square. White to move with the
# enemy king on e8 = 60, Black to move with the enemy king on e1 = 64 + 4 = 68.
C02_FAM = {"pattern": r"_(?:ek|k)_(\d+)$", "count": 1, "always": {"*": [60]}, "thorough_all": False, "thorough_count": 3}
C02_GRP = {"crate": "core", "module": "c02", "flags": NODEF + STUB, "timeout_q": 1200, "timeout_t": 3000, "mem_q": 8}
PROPS["C04"] = {
    "title": "Position hash is a pure function of the position",
    "groups": [{"crate": "core", "module": "c04", "timeout_q": 900, "timeout_t": 3000},
               # the make-move step of the hash invariant lives in the C02 successor harnesses (hash delta assertion)
               dict(C02_GRP, only="^c02_.*_ek_", seeded_family=dict(C02_FAM, count=0))],
    "functions": ["chess_lookup::{zobrist,castle_rights_zobrist,en_passant_zobrist,turn_zobrist} over the real key tables",
                  "chess_movegen::Board::{zobrist,standard}, PartialEq/Hash for Board, BoardBuilder::{place,remove}",
                  "make-move and parser parts of the invariant: see C02/C03 (c02 harnesses assert piece_hash == spec) and C05/C06"],
    "bounds": "none beyond the types: two symbolic key indices over all 794 keys (all pairs in one query); placements = arbitrary well-formed 8-bitboard partitions (not only valid chess positions); 64-square xor loop fully unwound",
    "outside": "collision-freeness of the XOR of several keys (not claimed by the property); the engine's repetition table keyed on the hash (C15)",
    "stubs": [],
    "assumptions": ["the invariant piece_hash == XOR of piece keys is an inductive invariant: base = standard()/empty builder/parser (C05/C06 harness), steps = place/remove (here) and make-move (C02/C03 harness)"],
    "level_text": "Key distinctness/non-zero is decided for all 794x793 pairs by one query over the real tables. The hash invariant is shown inductive (one symbolic step of place/remove from an arbitrary placement; make-move and parser steps in C02/C05), "
                  "and Eq/Hash agreement is decided for two symbolic boards: equal boards hash equal regardless of cached data and clocks, a difference in exactly one of turn/rights/en-passant changes the hash, and Hash feeds exactly one u64 (zobrist()).",
    "level_note": "Transposition independence follows from the invariant (the hash is a function of the fields), not from exploring move sequences.",
    "design_ref": "DESIGN.md section 4 C04",
}

C02_STUBS = ["chess_lookup::{between,rook_rays,bishop_rays,knight_moves,pawn_attacks_moves} -> loop-free geometry (spec/fast.rs), proven equal to the loop definitions by the lemmas harnesses and to the real tables by C09",
             "chess_movegen::Board::is_legal -> the reference rules' answer for exactly that board and move (licensed by C01/C10); the stub asserts it is asked about the right board and move",
             "chess_lookup::zobrist -> injective abstract key function in the make-move queries (CBMC over-approximates symbolic reads of the real key table inside these large queries: spurious, non-replaying counterexamples); the real key table is decided in C04's own harnesses"]
C02_ASSUME = ["validity predicate V (C06's list + no pawn on rank 1/8) on the pre-state", "clock values < 65535 (the property's own bound)",
              "<= 8 of the mover's sliders aligned with the enemy king after the move (loop bound of the incremental check/pin code; unwinding assertions on)"]
C02_BOUNDS_Q = ("per query: side to move and ENEMY king square concrete (index = turn*64+square), everything else symbolic: all placements of all other pieces incl. the mover's king, rights, en-passant file, clocks, the move (from,to,promotion - legal AND illegal triples) "
                "and the pre-state's cached pin/check/hash values. quick: 6 piece kinds x {White to move, enemy king e8} + 1 VERIF_SEED-chosen shape per kind")
C02_BOUNDS_T = C02_BOUNDS_Q.replace("+ 1 VERIF_SEED-chosen shape per kind", "+ 3 VERIF_SEED-chosen shapes per kind")
PROPS["C02"] = {
    "title": "Applying a legal move yields the correct successor position",
    "groups": [dict(C02_GRP, only="^c02_", seeded_family=C02_FAM),
               # the real Board::is_legal behind the checked wrappers (membership in the generated list)
               {"crate": "core", "module": "c10", "only": "c10_is_legal", "flags": NODEF + STUB, "timeout_q": 900}],
    "functions": ["chess_movegen::Board::{is_legal,move_new,move_mut,move_into,move_unchecked,move_unchecked_mut,move_unchecked_into,xor}", "CastleRights::remove_for_sq + CASTLE_RIGHTS_PER_SQ", "RawBoard::{xor,piece_of,piece_of_unchecked}",
                  "chess_lookup constants CASTLE_MOVES, PAWN_DOUBLE_MOVE, BACKRANK_BB, ROOK_CASTLE_*, PROMOTION_RANK (real)"],
    "bounds_quick": C02_BOUNDS_Q, "bounds_thorough": C02_BOUNDS_T,
    "outside": "enemy-king squares not selected in this run (128 shapes exist per kind; the thorough tier samples more, no tier runs all 768 = ~5 h); more than 8 aligned sliders; clocks at 65535; Display text of the successor",
    "stubs": C02_STUBS, "assumptions": C02_ASSUME,
    "level_text": "The real make-move code runs on a symbolic valid position and a symbolic (from,to,promotion) triple; the checked operation must accept exactly the triples the reference rules call legal, and every field of the result "
                  "(all eight piece/colour sets, side to move, castling rights, en-passant marker, both clocks, hash delta) must equal the reference successor; the receiver is untouched. The three checked wrappers are separately shown to be pure gates "
                  "over a free legality oracle (refusal leaves receiver/output slot bit-identical). The solver covers all placements and moves per shape at once - castling, en passant, promotions, rook captures on home squares are just values of the move.",
    "level_note": "Histories are covered by induction: the c03_inc harnesses show V is closed under legal moves. Per query the enemy king's square is a constant (measured: fully symbolic exceeds 12 GB).",
    "design_ref": "DESIGN.md section 4 C02",
}
PROPS["C03"] = {
    "title": "Check, mate and draw status are right; incremental state never goes stale",
    "groups": [dict(C02_GRP, only="^c03_", seeded_family=dict(C02_FAM, always={"*": [60], "update_pin_info": [4, 124]}))],
    "functions": ["chess_movegen::Board::move_unchecked_into (incremental checkers/pinned: direct knight/pawn checks, promotion, en-passant, castling rook, aligned sliders loop)", "Board::update_pin_info (from scratch, used by parser and builder)",
                  "Board::{in_check,state}", "reference pins/checkers (x-ray form) == ray-walking form"],
    "bounds_quick": C02_BOUNDS_Q + "; from-scratch query: side to move and the MOVER's king square concrete (e1/White, e8/Black + 1 seeded), <= 8 enemy sliders on the king's rays; state(): emptiness of the move list, checkers, half-move clock all free",
    "bounds_thorough": C02_BOUNDS_T + "; from-scratch query: 3 seeded king squares",
    "outside": "shapes not selected (see C02); Display/Debug text renderings (core::fmt is not executed symbolically: all observers are functions of the fields, and every field of a moved board is shown equal to the from-scratch value); the link 'move list empty <=> no legal move' is C01 + C10",
    "stubs": C02_STUBS + ["chess_movegen::Board::legals -> move list whose emptiness is a free boolean (state() classification query only)"], "assumptions": C02_ASSUME,
    "level_text": "After every legal move of a symbolic valid position the incrementally maintained checkers and pinned sets are compared with from-scratch reference definitions on the successor (direct, discovered, castling-rook, promotion and en-passant-discovered checks are just values of the move; cover witnesses show they are inside the space), "
                  "the from-scratch update_pin_info is compared with the same definitions, in_check() with 'king attacked', and state() with the classification table for all combinations of (no move, in check, clock). Closure of the validity predicate under legal moves is shown here too.",
    "level_note": "Moved board == rebuilt board is decided field by field (placement/rights/ep/clocks in C02, hash in C02/C04, pinned/checkers here, parser side in C05/C06), not by rendering text.",
    "design_ref": "DESIGN.md section 4 C03",
}

PROPS["C17"] = {
    "title": "Every opening-book line is a legal game (table-safety and termination clause)",
    "groups": [{"crate": "core", "module": "c17", "timeout_q": 900, "timeout_t": 3000, "mem_q": 20, "jobs": 3}],
    "functions": ["chess_lookup::BookMovesIter::next", "BookMoves::into_iter", "INITIAL_BOOOK_MOVES / EMPTY_BOOK_MOVES", "lichess_book::BOOK (real 87204-word table)"],
    "bounds": "none for the decided clause: one symbolic node index over all 87204 table positions (also positions no traversal reaches)",
    "outside": "NOT DECIDED: that each book move is legal in the position reached from the standard start (the position at a node is a function of the whole path, a finite walk of ~29k concrete games with no symbolic variable: "
               "inside CBMC that is concrete interpretation of ~10^9 steps, natively it would be a different technique). A mutated move word that stays a pair of squares is therefore not detected by this check.",
    "stubs": [], "assumptions": ["hook: BookMoves::verif_from_index to start at an arbitrary node (fields are private)"],
    "level_text": "For a symbolic node index (all 87204 at once, real table, pointer/overflow/unwrap checks on) one step of the book iterator is shown to read only inside the table, to decode squares < 64, and to move both the child cursor and the sibling cursor strictly downwards; "
                  "a strictly decreasing natural-number measure means every traversal from every node terminates inside the table.",
    "level_note": "Only the 'traversal terminates and stays inside the table' clause of C17 is decided; the legality clause is stated as outside (see evidence.outside_bounds and DESIGN.md).",
    "design_ref": "DESIGN.md section 4 C17",
}

PROPS["C10"] = {
    "title": "Move iterator honours its size and filtering contracts",
    "groups": [{"crate": "core", "module": "c10", "flags": NODEF + STUB, "timeout_q": 900, "timeout_t": 3000, "mem_q": 10}],
    "functions": ["chess_movegen::MoveGen::{next,len,is_empty,size_hint,count,clone,set_mask,remove,remove_move}", "masked generation (legals_masked) is the symbolic destination mask of the C01 unit queries"],
    "bounds_quick": "ONE operation from an ARBITRARY iterator state: <= 6 symbolic entries (source, destination set, promotion flag), cursor, mask, promotion cursor, under the representation invariant (len/size_hint: <= 4 entries - popcount sums); "
                    "the operation's argument (mask / move) and a probe move symbolic. Induction over operations => sequences of any length and interleaving",
    "bounds_thorough": "as quick with 18 entries (the list's capacity) for next, 9 for set_mask, 6 for len",
    "outside": "lists longer than the entry bound (each operation is a loop over entries with an entry-local body); the engine's staged use is C11",
    "stubs": [], "assumptions": ["representation invariant (entries before the cursor exhausted under the mask; a promotion group in progress belongs to the entry at the cursor; a move belongs to one entry) - established by the generator (asserted in the C01 unit queries) and shown preserved by every operation here"],
    "level_text": "The abstract state of the iterator is the SET of moves it still owns (membership predicate for a symbolic probe move, no enumeration). From an arbitrary state satisfying the representation invariant one real operation is run and the abstract state after must be exactly what the set model prescribes: "
                  "next yields an owned, mask-visible move and removes exactly it; len/size_hint/count/is_empty equal the number of moves still to come; set_mask loses nothing and exposes exactly the owned moves in the mask; remove/remove_move delete exactly those; clone is independent. The invariant is shown preserved, so any interleaving of any length is covered by induction.",
    "level_note": "Two regions are recorded known findings (representation-inherent, see known_findings.json): set_mask during a partly yielded promotion group; remove_move of a promotion move. Three defects found by these queries were fixed (fix: commits).",
    "design_ref": "DESIGN.md section 4 C10",
}

C06_FUNC = {"crate": "core", "module": "c06", "flags": NODEF + STUB, "timeout_q": 1500, "timeout_t": 3000, "mem_q": 12, "jobs": 8}
PROPS["C06"] = {
    "title": "FEN parsing is total and admits only playable positions",
    "groups": [dict(C06_FUNC, only="^c06_")],
    "functions": ["chess_movegen::Board::{validate,validate_en_passant,validate_castle_rights,opponent_in_check}, RawBoard::has_kings, BoardBuilder::build",
                  "chess_movegen::fen::{parse_fen,parse_number,parse_whitespace,parse_dash,parse_castle_rights} on the fields after the placement"],
    "bounds": "build()/validate: a FULLY symbolic board (eight 64-bit sets forming a partition, side, rights, en-passant file, clocks, hash) - accepted <=> C06's list, fields returned unchanged, documented error kind; <= 8 enemy sliders on the king's rays (loop bound of the pin computation that runs on acceptance). "
              "Parser: every byte string of every length 0..=6 after a fixed two-king placement (side, rights, en-passant, clocks, trailing bytes: every error arm); every 1..=5-byte clock field (accepted exactly for [spaces] 1-4 digits, value exact); "
              "every 1..=2-byte en-passant field for either side to move on boards where every file has a double-stepped pawn (accepted exactly for '-' and file a-h + the mover's capture rank, decoded exactly); every 1..=4-byte castling field with all rooks at home (accepted exactly for '-' and the non-empty subsequences of KQkq, decoded exactly). Lengths are enumerated concretely, contents symbolic.",
    "outside": "NOT DECIDED: the placement field on symbolic bytes. Measured: two symbolic bytes inside the 64-square loop already exceed 12 GB (the file counter becomes symbolic and the hand-written slice patterns fork on every byte; a symbolic slice LENGTH alone forks every pattern). "
               "So 'never panics on arbitrary bytes' is decided for the five fields after the placement only, and 'decoded placement == text' only for concrete texts (c05_three_constructors_agree). Rust-level panics (overflow, index, unwrap) are checked; the parser contains no unsafe code.",
    "stubs": ["builder queries only: chess_lookup::{rook_moves,bishop_moves,knight_moves,king_moves,pawn_attacks_moves,between,rook_rays,bishop_rays} -> loop-free geometry (lemmas + C08/C09); with the real magic tables and a symbolic king square one partition took ~600 s"],
    "assumptions": ["the builder cannot assemble overlapping piece sets (place() refuses occupied squares): boards are symbolic partitions"],
    "level_text": "Acceptance by validate()/build() is decided against C06's list for a fully symbolic board - one king per side, <= 16 pieces per side, side not to move not in check, rights only with king and rook at home, en-passant marker only behind an enemy pawn on its double-step rank - in both directions (accepted => playable, playable => accepted), with the error kind. "
                  "The parser is shown total and exact on every byte string (bounded length) in the fields after the placement.",
    "level_note": "The parser funnels every text into the same validate() that the builder query decides; what is not decided is the byte-level decoding of the placement field (stated).",
    "design_ref": "DESIGN.md section 4 C05/C06",
}
PROPS["C05"] = {
    "title": "FEN text and board are inverse representations",
    "groups": [dict(C06_FUNC, only="^c05_", seeded_family={"pattern": r"_k_(\d+)$", "count": 16, "always": {"*": []}, "thorough_all": True}),
               # the parser accepts every canonical en-passant / castling field (C06's field queries), and the
               # builder's place/remove keep the hash a function of the placement (C04's builder queries)
               dict(C06_FUNC, only="^c06_(en_passant|castling)_field"),
               {"crate": "core", "module": "c04", "only": "c04_builder", "timeout_q": 900}],
    "functions": ["core::fmt::Display for chess_movegen::Board (piece runs, side, CastleRights::fmt, en-passant square, clocks through core::fmt)", "Board::standard, fen::parse_fen, BoardBuilder::{place,castle_rights,build} on the start position"],
    "bounds": "writer: 25 concretised shapes (start position for either side, en-passant squares on the a-, d-, e- and h-file for either side to move, all 16 castling-right subsets, partial rights Kq in an endgame) with both clocks symbolic inside a digit-count class (1-4 digits; all of 0..9999 is covered across the shapes); "
              "the real writer's bytes and length are compared with a reference canonical text. Three constructors: concrete start position, all fields.",
    "outside": "symbolic piece placement in the text (see C06: the parser cannot take symbolic placement bytes; the writer half alone is cheap but its run-length output makes the text length symbolic) - placements are concretised per shape; "
               "the parser half of the round trip on 32-piece texts exceeds 12 GB even with only the clock digits symbolic and is decided on two-king texts in C06",
    "stubs": [], "assumptions": ["reference canonical writer in the harness (run-length placement, side, rights KQkq order, en-passant target square, minimal decimal clocks)"],
    "level_text": "The real FEN writer runs through core::fmt into a byte sink for a position with symbolic clocks and its output is compared byte for byte with a reference canonical FEN (this is what catches a wrong en-passant square, castling letter order or clock rendering); "
                  "standard(), the parser and the builder are shown to produce identical boards (all fields incl. hash and derived state) for the start position.",
    "level_note": "Weaker than designed: placement is concrete per shape (measured limits in `outside`). The round trip composes writer == reference (here) with parser(reference fields) (C06).",
    "design_ref": "DESIGN.md section 4 C05/C06",
}

ENG = {"crate": "engine", "no_native_replay": True, "flags": NODEF + STUB, "timeout_q": 1500, "timeout_t": 5000, "mem_q": 20, "mem_t": 45, "jobs": 2, "jobs_t": 1}
ENG_STUBS = ["chess_movegen::Board::legals -> a symbolic move list under the iterator invariant, the same on every pass (that the real list is exactly the legal moves: C01; that iterating it yields each once: C10)",
             "Engine::alphabeta at depth 1 -> oracle through the hook Timeout::verif_oracle: arbitrary score + 0..=2 timeout polls, contract A 'not a sentinel unless the limit has expired'",
             "ThreeFold::get -> arbitrary count (only passed down to the search)", "MoveGen::set_mask -> its abstract effect (new mask, cursor rewound; the real raw-pointer compaction is C10/C07)",
             "tracing::{Event::dispatch, DefaultCallsite::interest, __macro_support::__is_enabled, dispatcher::get_default} -> no event enabled (tracing's callsite registration trips an internal assertion of the Kani 0.68 compiler)"]
PROPS["C11"] = {
    "title": "Search returns a legal move whenever the time limit may expire",
    "groups": [dict(ENG, module="c11", only="^c11_|c12_one_level")],
    "functions": ["chess_engine::Engine::{search,search_with::<White|Black>} - the iterative-deepening root loop (previous-best probe, capture stage, remaining moves, discard-on-expiry, commit-on-completed-pass, stop on mate / empty list / deepest depth)",
                  "Engine::alphabeta::<White|Black> - ONE real call at a symbolic depth d (through the hook verif_alphabeta): capture test, insufficient material, terminal detection, fifty-move and repetition draws, leaf evaluation call, child loop with timeout polls and cutoff",
                  "BoardList::{new,add,count}", "Policy::{is_better,update_cutoff}"],
    "bounds": "root loop: move list = set model with <= 3 symbolic moves; expiry at poll index k <= 2 (every instant inside the first passes), each search call consuming 0..=2 further polls; plus the rule 'never during pass 0, always from pass 1 on'. "
              "One recursion level: depth d in 1..=1000, any remaining depth, any window, expiry index k <= 3, child list <= 2 moves. Loop unwinding 5 / 8 (unwinding assertions on).",
    "outside": "more than 3 root moves / later expiry instants (the pass structure repeats); wall-clock DurationTimeout; the composition 'root loop + levels' is an induction over the depth argued in DESIGN.md section 4 C11, each step machine-checked, the composition itself not",
    "stubs": ENG_STUBS, "assumptions": ["the timeout is monotone (once expired, stays expired)", "contracts A and M for the calls BELOW the real level (discharged for the real level itself by the one-level queries)"],
    "level_text": "The real root loop runs against the set model of the move list, a symbolic expiry instant and an oracle for the search below. Decided for all of them at once: the search terminates; every move it searches and the move it returns belong to the position; no move is searched twice in a pass; "
                  "the returned (move, score) was answered in the LAST COMPLETED pass (a pass cut short by the limit never leaks); an empty list gives 'no move' after a single pass; when the limit cannot expire in the first pass a move is committed and every move was searched exactly once. "
                  "One real level of the recursion is shown to satisfy the contracts the oracle is assumed to satisfy (not a sentinel unless expired; mate distances >= depth), which closes the induction over the depth.",
    "level_note": "Assume-guarantee over the recursion with both halves machine-checked (root loop under contracts; one level establishes the contracts from the contracts one level deeper). The real MoveGen is replaced by its set model (C10).",
    "design_ref": "DESIGN.md section 4 C11",
}
PROPS["C12"] = {
    "title": "A mate in one is always found and truthfully reported",
    "groups": [dict(ENG, module="c11", only="^c12_|c11_first_pass")],
    "functions": ["Engine::alphabeta terminal detection (no legal move + in check => mate score of the current depth for the side that moved; no legal move, not in check => draw) - real code, one level, both policies",
                  "Engine::search_with root loop: best-score bookkeeping over Score's order, stop-on-mate, every root move searched in the first pass"],
    "bounds": "one level: symbolic depth d (d = 1 is the mate-in-one case), any window, child list <= 2 moves, emptiness and check flag symbolic; root: as C11 (<= 3 moves, expiry index <= 2)",
    "outside": "that 'no legal move' and 'in check' mean what they say is C01 / C03; mate in more than one is not part of the property",
    "stubs": ENG_STUBS, "assumptions": ["contract M(d+1) for the calls below the real level"],
    "level_text": "Both halves are decided on the real code. Terminal detection: a search call at depth d returns 'mate in d for the side that just moved' exactly when the position it reaches has no legal move and is in check (and a draw when it has none and is not in check), never a mate in d otherwise - for both colours. "
                  "Root: if some root move is answered 'mate in one for the mover' in a pass that completes, the search returns with exactly that score and a move; a mate-in-one score is only reported if some move was answered so; and every root move is searched in the first pass (so a mating move cannot be skipped).",
    "level_note": "Composition of the two halves (the answer of a root move IS the depth-1 call's result) is by the code's structure: the root loop passes the call's return value on unchanged - read, and exercised by the C11 root queries.",
    "design_ref": "DESIGN.md section 4 C12",
}
PROPS["C13"] = {
    "title": "Search is colour-symmetric (equivariance lemmas)",
    "groups": [dict(ENG, module="c13", jobs=3, mem_q=14)],
    "functions": ["chess_engine::Score::cmp under the colour swap", "White/Black Policy::{is_better,update_cutoff,WORST_SCORE,BEST_SCORE,COLOR} (through hook wrappers)", "Engine::{eval,score_pieces,eval_endgame,insuffient_material} on a board and its mirror image"],
    "bounds": "all scores (Raw(i32::MIN) excluded: it has no negation); all alpha/beta windows; evaluation: any placement with one king per side and <= 16 men per side, any side to move, any clock, positional evaluation off (the shipped default)",
    "outside": "NOT DECIDED: the end-to-end statement search(mirror(B)) == -search(B) per completed depth - a relation between two recursive searches resting on move-order independence of alpha-beta, which a bounded query cannot supply. Decided are the component lemmas where a one-sided slip can live. "
               "The king-mobility term of the endgame evaluation (generator output) is replaced by a mirror-invariant stand-in; the generator's own colour symmetry is C01 (both colours go through the same colour-parametrised reference).",
    "stubs": ["Board::king_legals -> mirror-invariant stand-in (squares around the king not occupied by own men)", "tracing internals (as C11)"], "assumptions": [],
    "level_text": "Component level only: the colour swap on scores reverses Score's order; the White and Black policies (better-than test, window update, extreme scores, cutoff test) are mirror images of each other under it; the evaluation of a mirrored board is the negated evaluation (material, endgame bonus incl. the distance and edge tables, fifty-move clock), and insufficient-material detection is colour blind.",
    "level_note": "Claimed at lemma level and labelled so; the composition into C13's end-to-end statement is not machine-checked.",
    "design_ref": "DESIGN.md section 4 C13",
}
PROPS["C15"] = {
    "title": "Bot plugin: legality gate and threefold detection",
    "groups": [dict(ENG, module="c15", jobs=3, mem_q=14)],
    "functions": ["chess_bot::ChessBot::{make_move,set_board,board} (impl of chess_api::ChessEngineTrait)", "chess_engine::ThreeFold::{new,add,get} over std HashMap<Board,u8,IntHashBuilder> + Hash/Eq for Board", "chess_api::StableChessMove -> ChessMove"],
    "bounds_quick": "gate: fully symbolic board, symbolic stable move, free legality answer and free repetition answer",
    "bounds_thorough": "as quick (the real repetition table - a std HashMap - does not finish under CBMC even for a fully concrete sequence of four insertions: 25 min; its 'third occurrence' behaviour is NOT covered by any tier)",
    "outside": "the dlopen / abi_stable trait-object boundary (FFI) - the methods behind it are what runs; repetition histories longer than 5 insertions / more than 2 distinct positions; that the proposed move is legal is C11; Board::is_legal and make-move are free/marker functions here (their meaning: C01, C02)",
    "stubs": ["Board::is_legal -> free boolean", "Board::move_unchecked_into -> marker transformation", "ThreeFold::add -> recorder with a free answer (gate queries only; the table query runs the real HashMap)"], "assumptions": [],
    "level_text": "The real plugin methods run on a symbolic board and move: applied iff legal, otherwise position unchanged and reported invalid; the board reported is the make-move result; the repetition table is asked exactly once, with the new position, iff the move was applied, and its answer is the threefold flag; set_board and the constructor count the position they install. "
                  "The repetition table itself (std HashMap) is NOT decided: no query over it finishes (stated); its counter arithmetic was repaired after a native reproduction (known_findings.json).",
    "level_note": "Long reversible manoeuvres are covered by the one-step structure (gate + counter + hash purity C04), not by exploring 8-ply histories.",
    "design_ref": "DESIGN.md section 4 C15",
}
PROPS["C07"] = {
    "title": "Safe API never violates an unchecked-operation precondition",
    "groups": [{"crate": "core", "module": "c07", "flags": STUB, "timeout_q": 1500, "timeout_t": 3000, "mem_q": 20, "jobs": 3},
               # the bit-pop / nth sites (the full bitboard check is C18; here the two unchecked-operation sites)
               {"crate": "core", "module": "c18", "only": "c18_pop|c18_nth_default", "timeout_q": 600},
               {"crate": "bmi2", "module": "c18_bmi2", "only": "c18_bmi2_nth$", "flags": STUB, "timeout_q": 900},
               # the book reads have their own check (C17, ~5-10 min); here only in the thorough tier
               {"crate": "core", "module": "c17", "timeout_q": 900, "timeout_t": 3000, "mem_q": 30, "jobs": 1, "tier_only": "thorough"},
               {"crate": "core", "module": "c08", "timeout_q": 600, "seeded_family": {"pattern": r"_(\d+)$", "count": 2, "always": {"*": []}, "thorough_all": True}},
               {"crate": "core", "module": "c04", "only": "c04_zobrist_folds|c04_standard", "timeout_q": 600},
               # the construction-time limits the unchecked paths rely on: <= 16 men a side (18-slot move list), side not to
               # move not in check (a king can never be captured, so king_sq always finds one) - C06's builder queries
               dict(C06_FUNC, only="c06_build_accepts_exactly_playable_positions_(counts|rules_w$|rules_b$)")],
    "functions": ["Board::king_sq (pop_unchecked), RawBoard::{get,piece_of,piece_of_unchecked}, CastleRights::to_index (unreachable_unchecked), Board::move_unchecked_into incl. clock arithmetic", "MoveGen::set_mask raw-pointer compaction",
                  "BitBoard::{pop,pop_unchecked}, BitBoardIter::nth (both paths)", "chess_lookup::{rook_moves,bishop_moves} table index", "BookMovesIter::next unchecked reads", "capacity of the 18-slot move list: asserted per generator unit in the C01 queries (entries <= pieces of the kind, +2 for the pawn unit)"],
    "bounds": "each query from an ARBITRARY state satisfying the invariant the constructors establish (C06) and legal moves preserve (C02/C03) - one step suffices for sequences of any length; make-move with ANY clock values (0..=65535); set_mask with 0..=18 arbitrary entries; slider index: VERIF_SEED-chosen squares here, all 128 in C08",
    "outside": "the recursion depth of the search (stack); Display/Debug formatting; the CLI / WASM front-ends; the site inventory cross-check planned in DESIGN.md was not built - the site list in DESIGN.md section 4 C07 is by reading",
    "stubs": C02_STUBS[:2], "assumptions": C02_ASSUME[:1] + ["<= 8 aligned sliders (loop bound)"],
    "level_text": "Every unchecked fast path named by the property is executed symbolically with Kani's default checks ON (pointer validity and bounds of unsafe reads/writes, arithmetic overflow, std's unsafe-precondition assertions, unreachable hints, arrayvec's debug assertion) from an arbitrary invariant-satisfying state, "
                  "so a violation reachable by any sequence of safe calls would show as a failed check in one step.",
    "level_note": "One-step induction relies on the invariant's closure (C02/C03) and establishment (C06). Kani models the dev profile; release-only behaviour is covered only where counterexamples are replayed natively.",
    "design_ref": "DESIGN.md section 4 C07",
}

PROPS["LEM"] = {"title": "internal: F-level stubs == S-level geometry", "claimed": False,
                "groups": [{"crate": "core", "module": "lemmas", "timeout_q": 600}]}

# concretised (side to move, king square) index = turn*64 + square.  e1 = 4, e8 = 60.
# pawn units: also White king f6 / Black king c3 - shapes in which a pawn on its seventh rank can be pinned
# diagonally by a piece on the last rank (promotion while pinned)
KING_ALWAYS = {"*": [], "king": [4, 124], "attacked_square": [4, 124], "pawn": [45, 82]}
PROPS["C01"] = {
    "title": "Generated moves are exactly the legal moves of chess",
    "groups": [
        {"crate": "core", "module": "lemmas", "timeout_q": 600},
        {"crate": "core", "module": "c01_units", "flags": NODEF + STUB, "timeout_q": 900, "timeout_t": 6000, "mem_q": 10, "mem_t": 16, "jobs": 8, "jobs_t": 4,
         "seeded_family": {"pattern": r"_k_(\d+)$", "count": 1, "always": KING_ALWAYS, "thorough_all": False, "thorough_count": 3}},
    ],
    "functions": ["chess_movegen iter/pieces.rs: PieceType::legals::<IN_CHECK|NO_CHECK> for Knight/Bishop/Rook/Queen, Pawn::legals (pushes, captures, promotion flag, en passant via is_legal_en_passant), King::king_legals (steps + castling), check_mask, is_legal_king_position",
                  "each through Board::verif_unit_legals(unit, in_check, mask) with a symbolic destination mask (legals_masked semantics)"],
    "bounds_quick": "per query: generator unit (6 piece kinds x in-check / not-in-check = 12) with side to move and the MOVER's king square concrete (index = turn*64+square) and everything else symbolic: all other pieces, rights, en-passant file, "
                    "the probe move (from,to,promotion) and the destination mask. <= 2 pieces of the unit's kind for the mover (each source square is handled by its own loop iteration), <= 8 enemy sliders in the attacked-square test. "
                    "quick: 1 VERIF_SEED-chosen king square per unit, plus e1/White and e8/Black for the king unit (castling) and the attacked-square unit",
    "bounds_thorough": "as quick with 3 seeded king squares per unit, plus the END-TO-END query: the real legals_masked (dispatch on the number of checkers + all units) on two kings and <= 2 further pieces of any kind, White king e1 (35 min, 10 GB)",
    "outside": "more than 2 pieces of one kind moving in the same query (the per-piece loop body reads only the board, so two pieces exercise every interaction between loop iterations: ordering, list push); king squares not selected in this run; "
               "the dispatch in collect_moves on the number of checkers (3 lines, read); Board::is_legal = legals().any() is C10's next query; Display text of moves",
    "stubs": ["chess_lookup::{between,line,rook_moves,bishop_moves,rook_rays,bishop_rays,knight_moves,king_moves,pawn_moves,pawn_attacks_moves} -> loop-free geometry (spec/fast.rs), proven equal to the loop definitions (lemmas) and to the real tables (C08/C09)",
              "king unit only: Board::is_legal_king_position -> reference 'square not attacked with the king lifted', proven equal to the real function by the c01_attacked_square_* queries of the same run"],
    "assumptions": ["validity predicate V on the position (C06's list + no pawn on rank 1/8); cached pinned/checkers equal their definitions (C03 shows every constructor and make-move produce exactly those)",
                    "non-king units are only called with exactly 0 or 1 checker (collect_moves' dispatch)"],
    "level_text": "For a symbolic valid position, a symbolic move and a symbolic destination mask, each generator unit's real code is run and ONE assertion decides soundness, completeness and 'exactly once': "
                  "number of list entries yielding the move == [reference rules say legal and destination in mask]. The reference rules are written from the FIDE rules (pseudo-legal by geometry, play on a copy, king not attacked) and validated natively against the repository's own perft numbers. "
                  "The solver quantifies over every placement at once, so the rare interactions (en passant uncovering a rank attack, pinned pawn capturing along the pin, castling through each attacker type) need not be thought of.",
    "level_note": "Compositional: units verified separately (the whole generator in one query was measured infeasible: 46 GB). List invariants the iterator relies on (entry belongs to an own piece, non-empty under the mask, no own-piece destination) are asserted too.",
    "design_ref": "DESIGN.md section 4 C01",
}
