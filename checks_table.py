"""Which harness modules decide which property, with the kani flags, bounds and claim text that
go into the evidence file. Harness lists are read from the module source on every run."""

NODEF = ["--no-default-checks"]          # functional harnesses: assertions + unwinding assertions only
STUB = ["-Z", "stubbing"]

CRATES = {
    "core": {},
    "bmi2": {"rustflags": "--cfg target_feature=\"bmi2\" -Aexplicit_builtin_cfgs_in_flags"},
    "engine": {},
}

PROPS = {}
NOT_APPLICABLE = {}
HOOK_COMMITS = []

PROPS["C18"] = {
    "title": "Bitboards behave as sets of squares",
    "groups": [
        {"crate": "core", "module": "c18", "timeout_q": 300},
        {"crate": "bmi2", "module": "c18_bmi2", "flags": STUB, "timeout_q": 600},
    ],
    "functions": ["chess_bitboard::BitBoard::{from_pos,from_file,from_rank,contains,with,cleared,set,clear,or,and,xor,not,diff,"
                  "shift_up,shift_down,shift_left,shift_right,pop,pop_unchecked,iter,count,any,none,all,some,flip_ranks}",
                  "BitBoardIter::{next,size_hint,nth (default path and the shipped BMI2/PDEP path)}",
                  "FromIterator<Pos>, FromIterator<BitBoard>, From<Pos|File|Rank|u64|Option<T>>, ops.rs operator impls"],
    "bounds": "all 2^64 boards (symbolic u64), pairs of boards, symbolic probe square; FromIterator: <= 4 symbolic items; "
              "nth: n unrestricted usize on the BMI2 path, n <= 16 on the std default path; unwind 66 for the 64-square loops",
    "outside": "FromIterator with more than 4 items (the fold is item-wise); Debug/Binary/Hex formatting",
    "stubs": ["core::arch::x86_64::_pdep_u64 -> Intel SDM pseudo-code model (BMI2 harness only)"],
    "assumptions": ["PDEP behaves as the Intel SDM pseudo-code (trusted model used only for the BMI2 nth harness)"],
    "level_text": "Every BitBoard/BitBoardIter operation is executed symbolically (compiled real code) on a fully symbolic u64 "
                  "board (pairs of boards, symbolic probe square, symbolic n) and compared with the bit-level set definition; "
                  "the SAT solver covers all 2^64 boards at once instead of the single/two-square boards the quantifier text "
                  "samples. Both nth implementations are covered: the std default path and the shipped BMI2/PDEP path.",
    "level_note": "Bounds: FromIterator <= 4 items, nth default path n <= 8 (std's loop), iteration by one-step induction "
                  "(next yields the minimum and removes exactly it). PDEP is modelled by the Intel SDM pseudo-code; "
                  "counterexamples are replayed natively on the real instruction.",
    "design_ref": "DESIGN.md section 4 C18",
}
