//! Native validation of the reference rules (the oracle) against the repository's own perft
//! positions: the oracle enumerates all (from, to, promotion) triples, keeps the legal ones, plays
//! them with its own successor function and must reproduce the published perft counts - without
//! using the implementation's generator at all. Run: cargo test (with the hook cfg).
use crate::conv::*;
use crate::spec::rules::*;
use chess_movegen::Board;

fn spec_moves(b: &SBoard) -> Vec<SMove> {
    let mut v = Vec::new();
    for from in 0..64u8 {
        if !has(b.colors[b.turn as usize], from) {
            continue;
        }
        for to in 0..64u8 {
            for promo in [None, Some(1u8), Some(2), Some(3), Some(4)] {
                let m = SMove { from, to, promo };
                if is_legal(b, m) {
                    v.push(m);
                }
            }
        }
    }
    v
}
fn spec_perft(b: &SBoard, d: u32) -> u64 {
    if d == 0 {
        return 1;
    }
    let ms = spec_moves(b);
    if d == 1 {
        return ms.len() as u64;
    }
    ms.iter().map(|&m| spec_perft(&successor(b, m), d - 1)).sum()
}
fn sb(fen: &str) -> SBoard {
    to_sboard(&fen.parse::<Board>().unwrap())
}

#[test]
fn oracle_perft_startpos() {
    let b = sb("rnbqkbnr/pppppppp/8/8/8/8/PPPPPPPP/RNBQKBNR w KQkq - 0 1");
    assert_eq!(spec_perft(&b, 1), 20);
    assert_eq!(spec_perft(&b, 2), 400);
    assert_eq!(spec_perft(&b, 3), 8902);
}
#[test]
fn oracle_perft_kiwipete() {
    let b = sb("r3k2r/p1ppqpb1/bn2pnp1/3PN3/1p2P3/2N2Q1p/PPPBBPPP/R3K2R w KQkq - 0 1");
    assert_eq!(spec_perft(&b, 1), 48);
    assert_eq!(spec_perft(&b, 2), 2039);
    assert_eq!(spec_perft(&b, 3), 97862);
}
#[test]
fn oracle_perft_pos3_ep_pins() {
    let b = sb("8/2p5/3p4/KP5r/1R3p1k/8/4P1P1/8 w - - 0 1");
    assert_eq!(spec_perft(&b, 1), 14);
    assert_eq!(spec_perft(&b, 2), 191);
    assert_eq!(spec_perft(&b, 3), 2812);
    assert_eq!(spec_perft(&b, 4), 43238);
}
#[test]
fn oracle_perft_pos4_promotions() {
    let b = sb("r3k2r/Pppp1ppp/1b3nbN/nP6/BBP1P3/q4N2/Pp1P2PP/R2Q1RK1 w kq - 0 1");
    assert_eq!(spec_perft(&b, 1), 6);
    assert_eq!(spec_perft(&b, 2), 264);
    assert_eq!(spec_perft(&b, 3), 9467);
}
#[test]
fn oracle_perft_pos5() {
    let b = sb("rnbq1k1r/pp1Pbppp/2p5/8/2B5/8/PPP1NnPP/RNBQK2R w KQ - 1 8");
    assert_eq!(spec_perft(&b, 1), 44);
    assert_eq!(spec_perft(&b, 2), 1486);
    assert_eq!(spec_perft(&b, 3), 62379);
}
/// derived-state specs (checkers / pins) agree with the implementation on every position of
/// a 3-ply walk from kiwipete, and spec successor agrees with make-move
#[test]
fn oracle_successor_and_derived_agree_on_walk() {
    fn walk(real: &Board, d: u32, n: &mut u64) {
        let s = to_sboard(real);
        let parts = real.verif_parts();
        assert_eq!(parts.checkers.to_u64(), checkers(&s), "checkers {real}");
        assert_eq!(parts.pinned.to_u64(), pins(&s), "pins {real}");
        *n += 1;
        if d == 0 {
            return;
        }
        for m in real.legals() {
            let next = real.move_new(m).unwrap();
            let sn = successor(&s, of_move(m));
            assert_eq!(to_sboard(&next), sn, "successor {real} {m}");
            walk(&next, d - 1, n);
        }
    }
    let mut n = 0;
    walk(&"r3k2r/p1ppqpb1/bn2pnp1/3PN3/1p2P3/2N2Q1p/PPPBBPPP/R3K2R w KQkq - 0 1".parse().unwrap(), 2, &mut n);
    walk(&"8/2p5/3p4/KP5r/1R3p1k/8/4P1P1/8 w - - 0 1".parse().unwrap(), 3, &mut n);
    walk(&"r3k2r/Pppp1ppp/1b3nbN/nP6/BBP1P3/q4N2/Pp1P2PP/R2Q1RK1 w kq - 0 1".parse().unwrap(), 2, &mut n);
    assert!(n > 3000);
}

#[test]
fn probe_masked_ep_truncation() {
    use chess_bitboard::{BitBoard, Pos};
    let b: Board = "4k3/8/8/3Pp3/8/8/8/4K1N1 w - e6 0 1".parse().unwrap();
    let mask = !BitBoard::from_pos(Pos::E6);
    let got: Vec<String> = b.legals_masked(mask).map(|m| m.to_string()).collect();
    let want: Vec<String> = b.legals().filter(|m| mask.contains(m.dest)).map(|m| m.to_string()).collect();
    println!("masked: {:?}\nfiltered: {:?}", got, want);
    assert_eq!(got.len(), want.len());
}
