//! Kani harnesses over the real RustyYato/chess crates (path dependencies on /repo).
//! Everything here is compiled by `cargo kani` from /repo's current working tree on every run.
#![allow(dead_code, unused_imports, clippy::all)]

pub mod spec;
pub mod conv;
#[cfg(cv_replay)]
pub mod report;
#[cfg(test)]
mod native_tests;

#[cfg(kani)]
pub mod proofs;

#[cfg(kani)]
pub mod anyv {
    //! symbolic values of the real types
    use chess_bitboard::{BitBoard, Color, File, Piece, Pos, PromotionPiece, Rank, Side};

    pub fn pos() -> Pos {
        let x: u8 = kani::any();
        kani::assume(x < 64);
        Pos::from_u8(x).unwrap()
    }
    pub fn file() -> File {
        let x: u8 = kani::any();
        kani::assume(x < 8);
        File::from_u8(x).unwrap()
    }
    pub fn rank() -> Rank {
        let x: u8 = kani::any();
        kani::assume(x < 8);
        Rank::from_u8(x).unwrap()
    }
    pub fn color() -> Color {
        if kani::any() {
            Color::White
        } else {
            Color::Black
        }
    }
    pub fn side() -> Side {
        if kani::any() {
            Side::King
        } else {
            Side::Queen
        }
    }
    pub fn piece() -> Piece {
        let x: u8 = kani::any();
        kani::assume(x < 6);
        Piece::from_u8(x).unwrap()
    }
    pub fn promo() -> Option<PromotionPiece> {
        let x: u8 = kani::any();
        kani::assume(x < 5);
        match x {
            0 => Some(PromotionPiece::Knight),
            1 => Some(PromotionPiece::Bishop),
            2 => Some(PromotionPiece::Rook),
            3 => Some(PromotionPiece::Queen),
            _ => None,
        }
    }
    pub fn bb() -> BitBoard {
        BitBoard::from_u64(kani::any())
    }
}
