//! S-level reference geometry of the 8x8 board. Squares are (file, rank) pairs of small signed
//! integers with explicit 0 <= f,r < 8 guards, so wrap-around across an edge is impossible by
//! construction. No tables, no bit tricks beyond `1 << square`.

#[inline]
pub fn on(f: i8, r: i8) -> bool {
    0 <= f && f < 8 && 0 <= r && r < 8
}
#[inline]
pub fn idx(f: i8, r: i8) -> u8 {
    (r * 8 + f) as u8
}
#[inline]
pub fn fl(sq: u8) -> i8 {
    (sq % 8) as i8
}
#[inline]
pub fn rk(sq: u8) -> i8 {
    (sq / 8) as i8
}
#[inline]
pub fn bit(sq: u8) -> u64 {
    1u64 << sq
}
#[inline]
pub fn has(set: u64, sq: u8) -> bool {
    (set >> sq) & 1 == 1
}
/// bit of (f, r) or 0 when off the board
#[inline]
pub fn at(f: i8, r: i8) -> u64 {
    if on(f, r) {
        bit(idx(f, r))
    } else {
        0
    }
}

/// Squares reached from `sq` sliding in direction (df, dr) up to and including the first
/// occupied square.
pub fn ray(sq: u8, df: i8, dr: i8, occ: u64) -> u64 {
    let mut out = 0u64;
    let (mut f, mut r) = (fl(sq) + df, rk(sq) + dr);
    let mut i = 0;
    while i < 7 {
        if !on(f, r) {
            break;
        }
        let b = bit(idx(f, r));
        out |= b;
        if occ & b != 0 {
            break;
        }
        f += df;
        r += dr;
        i += 1;
    }
    out
}

pub fn rook_attacks(sq: u8, occ: u64) -> u64 {
    ray(sq, 1, 0, occ) | ray(sq, -1, 0, occ) | ray(sq, 0, 1, occ) | ray(sq, 0, -1, occ)
}
pub fn bishop_attacks(sq: u8, occ: u64) -> u64 {
    ray(sq, 1, 1, occ) | ray(sq, -1, 1, occ) | ray(sq, 1, -1, occ) | ray(sq, -1, -1, occ)
}
pub fn rook_rays(sq: u8) -> u64 {
    rook_attacks(sq, 0)
}
pub fn bishop_rays(sq: u8) -> u64 {
    bishop_attacks(sq, 0)
}

pub fn knight(sq: u8) -> u64 {
    let (f, r) = (fl(sq), rk(sq));
    at(f + 1, r + 2)
        | at(f - 1, r + 2)
        | at(f + 1, r - 2)
        | at(f - 1, r - 2)
        | at(f + 2, r + 1)
        | at(f - 2, r + 1)
        | at(f + 2, r - 1)
        | at(f - 2, r - 1)
}
pub fn king(sq: u8) -> u64 {
    let (f, r) = (fl(sq), rk(sq));
    at(f + 1, r)
        | at(f - 1, r)
        | at(f, r + 1)
        | at(f, r - 1)
        | at(f + 1, r + 1)
        | at(f - 1, r + 1)
        | at(f + 1, r - 1)
        | at(f - 1, r - 1)
}
/// forward direction of a colour: white (0) moves up the ranks
#[inline]
pub fn fwd(color: u8) -> i8 {
    if color == 0 {
        1
    } else {
        -1
    }
}
/// squares a pawn of `color` on `sq` attacks
pub fn pawn_att(sq: u8, color: u8) -> u64 {
    let (f, r) = (fl(sq), rk(sq));
    at(f + 1, r + fwd(color)) | at(f - 1, r + fwd(color))
}
/// quiet pawn destinations given the occupancy
pub fn pawn_push(sq: u8, color: u8, occ: u64) -> u64 {
    let (f, r) = (fl(sq), rk(sq));
    let d = fwd(color);
    let one = at(f, r + d);
    if one == 0 || one & occ != 0 {
        return 0;
    }
    let start = if color == 0 { 1 } else { 6 };
    let two = at(f, r + 2 * d);
    if r == start && two & occ == 0 {
        one | two
    } else {
        one
    }
}

/// -1, 0, 1
#[inline]
pub fn sgn(x: i8) -> i8 {
    if x > 0 {
        1
    } else if x < 0 {
        -1
    } else {
        0
    }
}
/// true iff a != b and they share a rank, file or diagonal
pub fn aligned(a: u8, b: u8) -> bool {
    let (df, dr) = (fl(b) - fl(a), rk(b) - rk(a));
    a != b && (df == 0 || dr == 0 || df == dr || df == -dr)
}
/// squares strictly between a and b when aligned, else empty
pub fn between(a: u8, b: u8) -> u64 {
    if !aligned(a, b) {
        return 0;
    }
    let (df, dr) = (sgn(fl(b) - fl(a)), sgn(rk(b) - rk(a)));
    let mut out = 0u64;
    let (mut f, mut r) = (fl(a) + df, rk(a) + dr);
    let mut i = 0;
    while i < 7 {
        if idx(f, r) == b {
            break;
        }
        out |= bit(idx(f, r));
        f += df;
        r += dr;
        i += 1;
    }
    out
}
/// the whole line (edge to edge, including a and b) through a and b when aligned, else empty
pub fn line(a: u8, b: u8) -> u64 {
    if !aligned(a, b) {
        return 0;
    }
    let (df, dr) = (sgn(fl(b) - fl(a)), sgn(rk(b) - rk(a)));
    bit(a) | ray(a, df, dr, 0) | ray(a, -df, -dr, 0)
}
pub fn distance(a: u8, b: u8) -> u8 {
    let df = (fl(a) - fl(b)).unsigned_abs();
    let dr = (rk(a) - rk(b)).unsigned_abs();
    if df > dr {
        df
    } else {
        dr
    }
}
pub fn file_set(f: i8) -> u64 {
    let mut out = 0;
    let mut r = 0;
    while r < 8 {
        out |= at(f, r);
        r += 1;
    }
    out
}
pub fn rank_set(r: i8) -> u64 {
    let mut out = 0;
    let mut f = 0;
    while f < 8 {
        out |= at(f, r);
        f += 1;
    }
    out
}
pub fn popcount(x: u64) -> u8 {
    let mut n = 0u8;
    let mut i = 0u8;
    while i < 64 {
        if has(x, i) {
            n += 1;
        }
        i += 1;
    }
    n
}
