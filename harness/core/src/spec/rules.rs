//! Reference rules of chess for ONE position and ONE move (the oracle of C01/C02/C03).
//! Written from the FIDE rules over a plain set representation; geometry comes from spec/fast.rs,
//! whose functions are proven equal to the loop definitions of spec/geom.rs (lemmas harnesses).
//! No tables of the implementation, none of its representation (pinned/checkers caches) is used:
//! legality = pseudo-legal by geometry, then play the move on a copy and test that the mover's
//! king is not attacked.
use super::fast as f;

pub const PAWN: u8 = 0;
pub const KNIGHT: u8 = 1;
pub const BISHOP: u8 = 2;
pub const ROOK: u8 = 3;
pub const QUEEN: u8 = 4;
pub const KING: u8 = 5;
pub const WHITE: u8 = 0;
pub const BLACK: u8 = 1;

/// castling-right bits as in the implementation's 4-bit set: side + 2*colour, King side = 0
pub const WK: u8 = 1;
pub const WQ: u8 = 2;
pub const BK: u8 = 4;
pub const BQ: u8 = 8;

#[derive(Clone, Copy, PartialEq, Eq, Debug)]
pub struct SBoard {
    pub colors: [u64; 2],
    pub pieces: [u64; 6],
    pub turn: u8,
    pub rights: u8,
    pub ep: Option<u8>, // file of the pawn that just made a double step
    pub half: u16,
    pub full: u16,
}

#[derive(Clone, Copy, PartialEq, Eq, Debug)]
pub struct SMove {
    pub from: u8,
    pub to: u8,
    pub promo: Option<u8>, // KNIGHT..QUEEN
}

#[inline]
pub fn bit(s: u8) -> u64 {
    1u64 << s
}
#[inline]
pub fn has(x: u64, s: u8) -> bool {
    (x >> s) & 1 == 1
}
#[inline]
pub fn file_of(s: u8) -> u8 {
    s & 7
}
#[inline]
pub fn rank_of(s: u8) -> u8 {
    s >> 3
}
#[inline]
pub fn mk(file: u8, rank: u8) -> u8 {
    rank * 8 + file
}

impl SBoard {
    pub fn occ(&self) -> u64 {
        self.colors[0] | self.colors[1]
    }
    pub fn color_at(&self, s: u8) -> Option<u8> {
        if has(self.colors[0], s) {
            Some(0)
        } else if has(self.colors[1], s) {
            Some(1)
        } else {
            None
        }
    }
    pub fn piece_at(&self, s: u8) -> Option<u8> {
        let mut p = 0u8;
        while p < 6 {
            if has(self.pieces[p as usize], s) {
                return Some(p);
            }
            p += 1;
        }
        None
    }
    pub fn of(&self, color: u8, piece: u8) -> u64 {
        self.colors[color as usize] & self.pieces[piece as usize]
    }
    /// well-formed set representation: the two colour sets are disjoint, the six piece sets are
    /// pairwise disjoint, and both families cover the same squares
    pub fn partition_ok(&self) -> bool {
        let p = &self.pieces;
        let u = p[0] | p[1] | p[2] | p[3] | p[4] | p[5];
        // pairwise disjoint, written bitwise (a square is in at most one piece set)
        let twice = (p[0] & p[1]) | ((p[0] | p[1]) & p[2]) | ((p[0] | p[1] | p[2]) & p[3]) | ((p[0] | p[1] | p[2] | p[3]) & p[4]) | ((p[0] | p[1] | p[2] | p[3] | p[4]) & p[5]);
        self.colors[0] & self.colors[1] == 0 && u == self.occ() && twice == 0
    }
    /// the square where an en-passant capture lands (behind the pawn that just double-stepped)
    pub fn ep_square(&self) -> Option<u8> {
        match self.ep {
            Some(file) => Some(mk(file, if self.turn == WHITE { 5 } else { 2 })),
            None => None,
        }
    }
    /// the square of the pawn that just double-stepped
    pub fn ep_victim(&self) -> Option<u8> {
        match self.ep {
            Some(file) => Some(mk(file, if self.turn == WHITE { 4 } else { 3 })),
            None => None,
        }
    }
    /// field-by-field equality (derived `==` on the arrays compiles to a memcmp loop, which
    /// would need its own unwinding bound in every harness)
    pub fn same(&self, o: &SBoard) -> bool {
        self.colors[0] == o.colors[0]
            && self.colors[1] == o.colors[1]
            && self.pieces[0] == o.pieces[0]
            && self.pieces[1] == o.pieces[1]
            && self.pieces[2] == o.pieces[2]
            && self.pieces[3] == o.pieces[3]
            && self.pieces[4] == o.pieces[4]
            && self.pieces[5] == o.pieces[5]
            && self.turn == o.turn
            && self.rights == o.rights
            && self.ep == o.ep
            && self.half == o.half
            && self.full == o.full
    }
    pub fn same_placement(&self, o: &SBoard) -> bool {
        self.colors[0] == o.colors[0]
            && self.colors[1] == o.colors[1]
            && self.pieces[0] == o.pieces[0]
            && self.pieces[1] == o.pieces[1]
            && self.pieces[2] == o.pieces[2]
            && self.pieces[3] == o.pieces[3]
            && self.pieces[4] == o.pieces[4]
            && self.pieces[5] == o.pieces[5]
    }
    pub fn king_sq(&self, color: u8) -> u8 {
        self.of(color, KING).trailing_zeros() as u8
    }
}

/// is square `s` attacked by a piece of colour `by`, with occupancy `occ` and the given piece sets
pub fn attacked(b: &SBoard, s: u8, by: u8, occ: u64) -> bool {
    let them = b.colors[by as usize];
    let rq = (b.pieces[ROOK as usize] | b.pieces[QUEEN as usize]) & them;
    let bq = (b.pieces[BISHOP as usize] | b.pieces[QUEEN as usize]) & them;
    // a pawn of colour `by` attacks s from the squares a pawn of the other colour on s would attack
    f::u_knight(s) & b.pieces[KNIGHT as usize] & them != 0
        || f::u_king(s) & b.pieces[KING as usize] & them != 0
        || f::u_pawn_att(s, 1 - by) & b.pieces[PAWN as usize] & them != 0
        || f::u_rook_moves(s, occ) & rq != 0
        || f::u_bishop_moves(s, occ) & bq != 0
}

/// first occupied square met when walking from `s` in direction (df, dr), if any
pub fn first_on_ray(s: u8, df: i8, dr: i8, occ: u64) -> Option<u8> {
    let (mut fl, mut rk) = ((s & 7) as i8 + df, (s >> 3) as i8 + dr);
    let mut i = 0;
    while i < 7 {
        if fl < 0 || fl > 7 || rk < 0 || rk > 7 {
            return None;
        }
        let q = (rk * 8 + fl) as u8;
        if has(occ, q) {
            return Some(q);
        }
        fl += df;
        rk += dr;
        i += 1;
    }
    None
}
const DIRS: [(i8, i8, bool); 8] = [(1, 0, true), (-1, 0, true), (0, 1, true), (0, -1, true), (1, 1, false), (1, -1, false), (-1, 1, false), (-1, -1, false)];

/// same predicate as `attacked`, sliders decided by walking the eight rays square by square
pub fn attacked_walk(b: &SBoard, s: u8, by: u8, occ: u64) -> bool {
    let them = b.colors[by as usize];
    let rq = (b.pieces[ROOK as usize] | b.pieces[QUEEN as usize]) & them;
    let bq = (b.pieces[BISHOP as usize] | b.pieces[QUEEN as usize]) & them;
    let mut hit = f::u_knight(s) & b.pieces[KNIGHT as usize] & them != 0
        || f::u_king(s) & b.pieces[KING as usize] & them != 0
        || f::u_pawn_att(s, 1 - by) & b.pieces[PAWN as usize] & them != 0;
    let mut d = 0;
    while d < 8 {
        let (df, dr, straight) = DIRS[d];
        if let Some(q) = first_on_ray(s, df, dr, occ) {
            if has(if straight { rq } else { bq }, q) {
                hit = true;
            }
        }
        d += 1;
    }
    hit
}
/// pins by walking: on each ray from the king, the first blocker is pinned if the next occupied
/// square behind it holds an enemy slider that moves along that ray
pub fn pins_walk(b: &SBoard) -> u64 {
    let us = b.turn;
    let k = b.king_sq(us);
    let them = b.colors[(1 - us) as usize];
    let occ = b.occ();
    let rq = (b.pieces[ROOK as usize] | b.pieces[QUEEN as usize]) & them;
    let bq = (b.pieces[BISHOP as usize] | b.pieces[QUEEN as usize]) & them;
    let mut out = 0u64;
    let mut d = 0;
    while d < 8 {
        let (df, dr, straight) = DIRS[d];
        if let Some(q) = first_on_ray(k, df, dr, occ) {
            if let Some(r) = first_on_ray(q, df, dr, occ) {
                if has(if straight { rq } else { bq }, r) {
                    out |= bit(q);
                }
            }
        }
        d += 1;
    }
    out
}

pub fn in_check(b: &SBoard, color: u8) -> bool {
    attacked(b, b.king_sq(color), 1 - color, b.occ())
}

/// the set of enemy pieces giving check to the side to move
pub fn checkers(b: &SBoard) -> u64 {
    let us = b.turn;
    let k = b.king_sq(us);
    let them = b.colors[(1 - us) as usize];
    let occ = b.occ();
    let rq = (b.pieces[ROOK as usize] | b.pieces[QUEEN as usize]) & them;
    let bq = (b.pieces[BISHOP as usize] | b.pieces[QUEEN as usize]) & them;
    (f::u_knight(k) & b.pieces[KNIGHT as usize] & them)
        | (f::u_pawn_att(k, us) & b.pieces[PAWN as usize] & them)
        | (f::u_rook_moves(k, occ) & rq)
        | (f::u_bishop_moves(k, occ) & bq)
}

/// "pinned" in the implementation's sense: the pieces (of either colour) that are the sole
/// blocker between the king of the side to move and an enemy slider that would attack it along
/// that line. Computed by x-ray: remove the first blockers and see which sliders appear.
pub fn pins(b: &SBoard) -> u64 {
    let us = b.turn;
    let k = b.king_sq(us);
    let them = b.colors[(1 - us) as usize];
    let occ = b.occ();
    let rq = (b.pieces[ROOK as usize] | b.pieces[QUEEN as usize]) & them;
    let bq = (b.pieces[BISHOP as usize] | b.pieces[QUEEN as usize]) & them;
    let mut out = 0u64;
    // rook lines
    let first = f::u_rook_moves(k, occ) & occ;
    let xray = f::u_rook_moves(k, occ & !first) & !f::u_rook_moves(k, occ);
    let mut pinners = xray & rq;
    let mut i = 0;
    while i < 4 && pinners != 0 {
        let p = pinners.trailing_zeros() as u8;
        pinners &= pinners - 1;
        out |= f::u_between(k, p) & first;
        i += 1;
    }
    // bishop lines
    let first = f::u_bishop_moves(k, occ) & occ;
    let xray = f::u_bishop_moves(k, occ & !first) & !f::u_bishop_moves(k, occ);
    let mut pinners = xray & bq;
    let mut i = 0;
    while i < 4 && pinners != 0 {
        let p = pinners.trailing_zeros() as u8;
        pinners &= pinners - 1;
        out |= f::u_between(k, p) & first;
        i += 1;
    }
    out
}

/// position after playing `m` (assumed pseudo-legal); the successor the rules prescribe
pub fn successor(b: &SBoard, m: SMove) -> SBoard {
    let us = b.turn;
    let them = 1 - us;
    let mut n = *b;
    let piece = match b.piece_at(m.from) {
        Some(p) => p,
        None => return n,
    };
    let fb = bit(m.from);
    let tb = bit(m.to);
    let mut capture = false;
    // captured piece on the destination
    if has(b.colors[them as usize], m.to) {
        capture = true;
        n.colors[them as usize] &= !tb;
        let mut p = 0;
        while p < 6 {
            n.pieces[p] &= !tb;
            p += 1;
        }
    }
    // en passant: the victim stands beside the capturing pawn
    if piece == PAWN && Some(m.to) == b.ep_square() && file_of(m.from) != file_of(m.to) && !capture {
        let v = bit(mk(file_of(m.to), rank_of(m.from)));
        n.colors[them as usize] &= !v;
        n.pieces[PAWN as usize] &= !v;
    }
    // move the piece
    n.colors[us as usize] = (n.colors[us as usize] & !fb) | tb;
    n.pieces[piece as usize] &= !fb;
    let placed = match (piece, m.promo) {
        (PAWN, Some(pp)) => pp,
        _ => piece,
    };
    n.pieces[placed as usize] |= tb;
    // castling: the rook hops over the king
    if piece == KING && file_of(m.from) == 4 && (file_of(m.to) == 6 || file_of(m.to) == 2) && rank_of(m.from) == rank_of(m.to) {
        let r = rank_of(m.from);
        let (rf, rt) = if file_of(m.to) == 6 { (mk(7, r), mk(5, r)) } else { (mk(0, r), mk(3, r)) };
        n.colors[us as usize] = (n.colors[us as usize] & !bit(rf)) | bit(rt);
        n.pieces[ROOK as usize] = (n.pieces[ROOK as usize] & !bit(rf)) | bit(rt);
    }
    // castling rights: lost when king or rook leaves home, or a home rook is captured
    let mut lost = 0u8;
    let mut k = 0;
    while k < 2 {
        let s = if k == 0 { m.from } else { m.to };
        lost |= match s {
            4 => WK | WQ,
            7 => WK,
            0 => WQ,
            60 => BK | BQ,
            63 => BK,
            56 => BQ,
            _ => 0,
        };
        k += 1;
    }
    n.rights = b.rights & !lost;
    // en-passant marker: set on, and only on, a double pawn step
    let double = piece == PAWN && (rank_of(m.from) as i8 - rank_of(m.to) as i8).abs() == 2;
    n.ep = if double { Some(file_of(m.from)) } else { None };
    n.half = if piece == PAWN || capture { 0 } else { b.half.wrapping_add(1) };
    n.full = if us == BLACK { b.full.wrapping_add(1) } else { b.full };
    n.turn = them;
    n
}

/// pseudo-legality by geometry (everything except "own king not left in check")
pub fn pseudo_legal(b: &SBoard, m: SMove) -> bool {
    let us = b.turn;
    let them = 1 - us;
    let occ = b.occ();
    if !has(b.colors[us as usize], m.from) || has(b.colors[us as usize], m.to) {
        return false;
    }
    // a king is never captured
    if has(b.of(them, KING), m.to) {
        return false;
    }
    let piece = match b.piece_at(m.from) {
        Some(p) => p,
        None => return false,
    };
    let last_rank = if us == WHITE { 7 } else { 0 };
    if piece != PAWN && m.promo.is_some() {
        return false;
    }
    match piece {
        PAWN => {
            if (rank_of(m.to) == last_rank) != m.promo.is_some() {
                return false;
            }
            let push = has(f::u_pawn_push(m.from, us, occ), m.to);
            let cap = has(f::u_pawn_att(m.from, us), m.to) && (has(b.colors[them as usize], m.to) || Some(m.to) == b.ep_square());
            push || cap
        }
        KNIGHT => has(f::u_knight(m.from), m.to),
        BISHOP => has(f::u_bishop_moves(m.from, occ), m.to),
        ROOK => has(f::u_rook_moves(m.from, occ), m.to),
        QUEEN => has(f::u_bishop_moves(m.from, occ) | f::u_rook_moves(m.from, occ), m.to),
        _ => {
            if has(f::u_king(m.from), m.to) {
                return true;
            }
            // castling
            let home = if us == WHITE { 4 } else { 60 };
            if m.from != home || rank_of(m.to) != rank_of(home) {
                return false;
            }
            let r = rank_of(home);
            let (right, empty, cross) = if m.to == mk(6, r) {
                (if us == WHITE { WK } else { BK }, bit(mk(5, r)) | bit(mk(6, r)), mk(5, r))
            } else if m.to == mk(2, r) {
                (if us == WHITE { WQ } else { BQ }, bit(mk(1, r)) | bit(mk(2, r)) | bit(mk(3, r)), mk(3, r))
            } else {
                return false;
            };
            b.rights & right != 0
                && occ & empty == 0
                && !attacked(b, home, them, occ)
                && !attacked(b, cross, them, occ)
            // the destination square is tested by the generic "king not left in check" step
        }
    }
}

pub fn is_legal(b: &SBoard, m: SMove) -> bool {
    if !pseudo_legal(b, m) {
        return false;
    }
    let n = successor(b, m);
    !attacked(&n, n.king_sq(b.turn), 1 - b.turn, n.occ())
}

/// The validity predicate V of DESIGN.md section 4 (C06's list, plus the stated restriction
/// "no pawn on the first or last rank").
pub fn valid(b: &SBoard) -> bool {
    let them = 1 - b.turn;
    b.turn < 2
        && b.rights < 16
        && b.partition_ok()
        && b.of(0, KING).count_ones() == 1
        && b.of(1, KING).count_ones() == 1
        && b.colors[0].count_ones() <= 16
        && b.colors[1].count_ones() <= 16
        && b.pieces[PAWN as usize] & 0xff000000000000ff == 0
        && rights_ok(b)
        && ep_ok(b)
        && !attacked(b, b.king_sq(them), b.turn, b.occ())
}
pub fn rights_ok(b: &SBoard) -> bool {
    (b.rights & (WK | WQ) == 0 || has(b.of(0, KING), 4))
        && (b.rights & (BK | BQ) == 0 || has(b.of(1, KING), 60))
        && (b.rights & WK == 0 || has(b.of(0, ROOK), 7))
        && (b.rights & WQ == 0 || has(b.of(0, ROOK), 0))
        && (b.rights & BK == 0 || has(b.of(1, ROOK), 63))
        && (b.rights & BQ == 0 || has(b.of(1, ROOK), 56))
}
pub fn ep_ok(b: &SBoard) -> bool {
    match b.ep {
        None => true,
        Some(file) => {
            file < 8
                && !has(b.occ(), b.ep_square().unwrap())
                && has(b.of(1 - b.turn, PAWN), b.ep_victim().unwrap())
        }
    }
}
