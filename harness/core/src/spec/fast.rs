//! F-level: loop-free equivalents of the chess_lookup accessors, used as Kani *stubs* so that the
//! generated 4096-word / 262144-word tables do not enter every query above layer L0.
//! Each is proven equal to the S-level definition (spec/geom.rs) by the `lemmas` harnesses, and
//! the real tables are proven equal to the S-level definitions by C08/C09. Signatures mirror
//! chess_lookup's.
use chess_bitboard::{BitBoard, Color, Pos};

const FILE_A: u64 = 0x0101010101010101;
const FILE_H: u64 = 0x8080808080808080;
const RANK_1: u64 = 0xff;
const MAIN_DIAG: u64 = 0x8040201008040201; // a1-h8
const ANTI_DIAG: u64 = 0x0102040810204080; // h1-a8

#[inline]
fn file_mask(sq: u8) -> u64 {
    FILE_A << (sq & 7)
}
#[inline]
fn rank_mask(sq: u8) -> u64 {
    RANK_1 << (sq & 56)
}
#[inline]
fn diag_mask(sq: u8) -> u64 {
    let d = (sq >> 3) as i8 - (sq & 7) as i8; // rank - file
    if d >= 0 {
        MAIN_DIAG << (8 * d as u32)
    } else {
        MAIN_DIAG >> (8 * (-d) as u32)
    }
}
#[inline]
fn anti_mask(sq: u8) -> u64 {
    let d = (sq >> 3) as i8 + (sq & 7) as i8 - 7; // rank + file - 7
    if d >= 0 {
        ANTI_DIAG << (8 * d as u32)
    } else {
        ANTI_DIAG >> (8 * (-d) as u32)
    }
}
/// Kogge-Stone occluded fill in one direction: purely bitwise (shift / and / or), no carries, so
/// the SAT encoding is small and shares structure between the implementation side (where these
/// functions are the lookup stubs) and the reference rules. `step` is the shift of one square,
/// `keep` masks out the squares that would wrap around the edge after a shift.
#[inline]
fn fill_up(mut g: u64, mut p: u64, step: u32, keep: u64) -> u64 {
    // propagate generator g through empty squares p, moving to higher indices
    p &= keep;
    g |= p & (g << step);
    p &= p << step;
    g |= p & (g << (2 * step));
    p &= p << (2 * step);
    g |= p & (g << (4 * step));
    (g << step) & keep
}
#[inline]
fn fill_down(mut g: u64, mut p: u64, step: u32, keep: u64) -> u64 {
    p &= keep;
    g |= p & (g >> step);
    p &= p >> step;
    g |= p & (g >> (2 * step));
    p &= p >> (2 * step);
    g |= p & (g >> (4 * step));
    (g >> step) & keep
}
const NOT_A: u64 = !FILE_A;
const NOT_H: u64 = !FILE_H;

pub fn u_rook_moves(sq: u8, occ: u64) -> u64 {
    let g = 1u64 << sq;
    let e = !occ;
    fill_up(g, e, 8, !0) | fill_down(g, e, 8, !0) | fill_up(g, e, 1, NOT_A) | fill_down(g, e, 1, NOT_H)
}
pub fn u_bishop_moves(sq: u8, occ: u64) -> u64 {
    let g = 1u64 << sq;
    let e = !occ;
    fill_up(g, e, 9, NOT_A) | fill_up(g, e, 7, NOT_H) | fill_down(g, e, 7, NOT_A) | fill_down(g, e, 9, NOT_H)
}
pub fn u_rook_rays(sq: u8) -> u64 {
    (file_mask(sq) | rank_mask(sq)) & !(1u64 << sq)
}
pub fn u_bishop_rays(sq: u8) -> u64 {
    (diag_mask(sq) | anti_mask(sq)) & !(1u64 << sq)
}
pub fn u_knight(sq: u8) -> u64 {
    let b = 1u64 << sq;
    let l1 = (b >> 1) & !FILE_H;
    let l2 = (b >> 2) & !(FILE_H | (FILE_H >> 1));
    let r1 = (b << 1) & !FILE_A;
    let r2 = (b << 2) & !(FILE_A | (FILE_A << 1));
    let h1 = l1 | r1;
    let h2 = l2 | r2;
    (h1 << 16) | (h1 >> 16) | (h2 << 8) | (h2 >> 8)
}
pub fn u_king(sq: u8) -> u64 {
    let b = 1u64 << sq;
    let row = b | ((b >> 1) & !FILE_H) | ((b << 1) & !FILE_A);
    (row | (row << 8) | (row >> 8)) & !b
}
pub fn u_pawn_att(sq: u8, color: u8) -> u64 {
    let b = 1u64 << sq;
    let side = ((b >> 1) & !FILE_H) | ((b << 1) & !FILE_A);
    if color == 0 {
        side << 8
    } else {
        side >> 8
    }
}
pub fn u_pawn_push(sq: u8, color: u8, occ: u64) -> u64 {
    let b = 1u64 << sq;
    if color == 0 {
        let one = (b << 8) & !occ;
        let two = if sq >> 3 == 1 { (one << 8) & !occ } else { 0 };
        one | two
    } else {
        let one = (b >> 8) & !occ;
        let two = if sq >> 3 == 6 { (one >> 8) & !occ } else { 0 };
        one | two
    }
}
/// full line through a and b (edge to edge) when aligned, else 0
pub fn u_line(a: u8, b: u8) -> u64 {
    if a == b {
        return 0;
    }
    let bb = 1u64 << b;
    if file_mask(a) & bb != 0 {
        file_mask(a)
    } else if rank_mask(a) & bb != 0 {
        rank_mask(a)
    } else if diag_mask(a) & bb != 0 {
        diag_mask(a)
    } else if anti_mask(a) & bb != 0 {
        anti_mask(a)
    } else {
        0
    }
}
/// squares strictly between a and b when aligned, else 0. Along every line the square index is
/// monotone, so "between" is the line restricted to indices strictly between the two.
pub fn u_between(a: u8, b: u8) -> u64 {
    let (lo, hi) = if a < b { (a, b) } else { (b, a) };
    let above_lo = !0u64 << lo << 1; // indices > lo   (two shifts: lo+1 may be 64)
    let below_hi = (1u64 << hi) - 1; // indices < hi
    u_line(a, b) & above_lo & below_hi
}

// ---- stubs with chess_lookup's signatures
pub fn rook_moves(pos: Pos, all: BitBoard) -> BitBoard {
    BitBoard::from_u64(u_rook_moves(pos as u8, all.to_u64()))
}
pub fn bishop_moves(pos: Pos, all: BitBoard) -> BitBoard {
    BitBoard::from_u64(u_bishop_moves(pos as u8, all.to_u64()))
}
pub fn rook_rays(pos: Pos) -> BitBoard {
    BitBoard::from_u64(u_rook_rays(pos as u8))
}
pub fn bishop_rays(pos: Pos) -> BitBoard {
    BitBoard::from_u64(u_bishop_rays(pos as u8))
}
pub fn knight_moves(pos: Pos) -> BitBoard {
    BitBoard::from_u64(u_knight(pos as u8))
}
pub fn king_moves(pos: Pos) -> BitBoard {
    BitBoard::from_u64(u_king(pos as u8))
}
pub fn pawn_attacks_moves(pos: Pos, color: Color) -> BitBoard {
    BitBoard::from_u64(u_pawn_att(pos as u8, color as u8))
}
pub fn pawn_attacks(pos: Pos, color: Color, all: BitBoard) -> BitBoard {
    BitBoard::from_u64(u_pawn_att(pos as u8, color as u8) & all.to_u64())
}
pub fn pawn_quiets(pos: Pos, color: Color, all: BitBoard) -> BitBoard {
    BitBoard::from_u64(u_pawn_push(pos as u8, color as u8, all.to_u64()))
}
pub fn pawn_moves(pos: Pos, color: Color, all: BitBoard) -> BitBoard {
    BitBoard::from_u64(
        u_pawn_push(pos as u8, color as u8, all.to_u64()) | (u_pawn_att(pos as u8, color as u8) & all.to_u64()),
    )
}
pub fn between(a: Pos, b: Pos) -> BitBoard {
    BitBoard::from_u64(u_between(a as u8, b as u8))
}
pub fn line(a: Pos, b: Pos) -> BitBoard {
    BitBoard::from_u64(u_line(a as u8, b as u8))
}
