pub mod geom;
pub mod fast;
pub mod rules;
