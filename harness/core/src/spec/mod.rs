pub mod geom;
