//! F == S lemma: the loop-free stub functions (spec/fast.rs) equal the loop-based S-level
//! definitions (spec/geom.rs) for every square / pair / colour / occupancy. Table-free.
//! Together with C08/C09 (real tables == S-level) this licenses every lookup stub used above L0.
use crate::spec::{fast as f, geom as g};

fn sq() -> u8 {
    let s: u8 = kani::any();
    kani::assume(s < 64);
    s
}

#[kani::proof]
#[kani::unwind(9)]
pub fn lemma_fast_sliders() {
    let s = sq();
    let occ: u64 = kani::any();
    assert!(f::u_rook_moves(s, occ) == g::rook_attacks(s, occ));
    assert!(f::u_bishop_moves(s, occ) == g::bishop_attacks(s, occ));
    assert!(f::u_rook_rays(s) == g::rook_rays(s));
    assert!(f::u_bishop_rays(s) == g::bishop_rays(s));
}

#[kani::proof]
#[kani::unwind(9)]
pub fn lemma_fast_leapers_pawns() {
    let s = sq();
    let c: u8 = kani::any();
    kani::assume(c < 2);
    let occ: u64 = kani::any();
    assert!(f::u_knight(s) == g::knight(s));
    assert!(f::u_king(s) == g::king(s));
    assert!(f::u_pawn_att(s, c) == g::pawn_att(s, c));
    assert!(f::u_pawn_push(s, c, occ) == g::pawn_push(s, c, occ));
}

#[kani::proof]
#[kani::unwind(9)]
pub fn lemma_fast_between_line() {
    let a = sq();
    let b = sq();
    assert!(f::u_between(a, b) == g::between(a, b));
    assert!(f::u_line(a, b) == g::line(a, b));
}
