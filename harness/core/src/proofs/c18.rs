//! C18 - bitboards behave as sets of squares. Every operation of chess_bitboard::BitBoard /
//! BitBoardIter / ops.rs against the bit-level set definition `contains(p) <=> bit p`, for all
//! 2^64 boards (symbolic u64) and a symbolic probe square.
use crate::anyv;
use crate::spec::geom as g;
use chess_bitboard::{BitBoard, File, Pos, Rank};

fn mem(b: BitBoard, q: Pos) -> bool {
    (b.to_u64() >> (q as u8)) & 1 == 1
}

#[kani::proof]
pub fn c18_construct() {
    let p = anyv::pos();
    let q = anyv::pos();
    let f = anyv::file();
    let r = anyv::rank();
    assert!(BitBoard::from_pos(p).to_u64() == 1u64 << (p as u8));
    assert!(mem(BitBoard::from_pos(p), q) == (p == q));
    assert!(mem(BitBoard::from_file(f), q) == (q.file() == f));
    assert!(mem(BitBoard::from_rank(r), q) == (q.rank() == r));
    assert!(BitBoard::from(p) == BitBoard::from_pos(p));
    assert!(BitBoard::from(f) == BitBoard::from_file(f));
    assert!(BitBoard::from(r) == BitBoard::from_rank(r));
    let x: u64 = kani::any();
    assert!(BitBoard::from(x).to_u64() == x && BitBoard::from_u64(x).to_u64() == x);
    assert!(BitBoard::empty().to_u64() == 0);
    let o: Option<Pos> = if kani::any() { Some(p) } else { None };
    assert!(mem(BitBoard::from(o), q) == (o == Some(q)));
    // file/rank of a square agree with index arithmetic
    assert!(q.file() as u8 == (q as u8) % 8 && q.rank() as u8 == (q as u8) / 8);
    kani::cover!(mem(BitBoard::from_file(f), q));
}

#[kani::proof]
pub fn c18_membership_insert_remove() {
    let b = anyv::bb();
    let p = anyv::pos();
    let q = anyv::pos();
    assert!(b.contains(q) == mem(b, q));
    assert!(mem(b.with(p), q) == (mem(b, q) || p == q));
    assert!(mem(b.cleared(p), q) == (mem(b, q) && p != q));
    let mut c = b;
    c.set(p);
    assert!(c == b.with(p));
    let mut d = b;
    d.clear(p);
    assert!(d == b.cleared(p));
    assert!(mem(b - p, q) == (mem(b, q) && p != q));
    let mut e = b;
    e -= p;
    assert!(e == b.cleared(p));
    assert!(b.any() == (b.to_u64() != 0));
    assert!(b.none() == (b.to_u64() == 0));
    assert!(b.all() == (b.to_u64() == u64::MAX));
    assert!(b.some() == (b.to_u64() != u64::MAX));
    kani::cover!(mem(b, q) && p != q);
}

#[kani::proof]
pub fn c18_boolean_algebra() {
    let a = anyv::bb();
    let b = anyv::bb();
    let q = anyv::pos();
    let (ma, mb) = (mem(a, q), mem(b, q));
    assert!(mem(a.or(b), q) == (ma || mb));
    assert!(mem(a.and(b), q) == (ma && mb));
    assert!(mem(a.xor(b), q) == (ma != mb));
    assert!(mem(a.not(), q) == !ma);
    assert!(mem(a.diff(b), q) == (ma && !mb));
    assert!(a | b == a.or(b));
    assert!(a & b == a.and(b));
    assert!(a ^ b == a.xor(b));
    assert!(a - b == a.diff(b));
    assert!(!a == a.not());
    let mut c = a;
    c |= b;
    assert!(c == a.or(b));
    let mut c = a;
    c &= b;
    assert!(c == a.and(b));
    let mut c = a;
    c ^= b;
    assert!(c == a.xor(b));
    let mut c = a;
    c -= b;
    assert!(c == a.diff(b));
    kani::cover!(ma && !mb);
}

#[kani::proof]
pub fn c18_shifts_never_wrap() {
    let b = anyv::bb();
    let q = anyv::pos();
    let (f, r) = (g::fl(q as u8), g::rk(q as u8));
    // q is in shift_X(b)  <=>  the square one step against X from q exists and is in b
    let src = |df: i8, dr: i8| -> bool { g::on(f + df, r + dr) && g::has(b.to_u64(), g::idx(f + df, r + dr)) };
    assert!(mem(b.shift_up(), q) == src(0, -1));
    assert!(mem(b.shift_down(), q) == src(0, 1));
    assert!(mem(b.shift_left(), q) == src(1, 0));
    assert!(mem(b.shift_right(), q) == src(-1, 0));
    assert!(mem(b.flip_ranks(), q) == g::has(b.to_u64(), g::idx(f, 7 - r)));
    kani::cover!(mem(b.shift_left(), q));
    kani::cover!(f == 7 && !mem(b.shift_left(), q));
}

#[kani::proof]
#[kani::unwind(66)]
pub fn c18_count() {
    let b = anyv::bb();
    assert!(b.count() == g::popcount(b.to_u64()));
}

/// lowest member of a non-empty set, by definition: member with no smaller member
fn is_min(b: u64, p: u8, q: u8) -> bool {
    g::has(b, p) && !(q < p && g::has(b, q))
}

#[kani::proof]
pub fn c18_pop() {
    let b = anyv::bb();
    let q = anyv::pos();
    let mut c = b;
    match c.pop() {
        None => assert!(b.to_u64() == 0 && c == b),
        Some(p) => {
            assert!(is_min(b.to_u64(), p as u8, q as u8));
            assert!(c == b.cleared(p));
        }
    }
    if b.any() {
        let mut d = b;
        let p = unsafe { d.pop_unchecked() };
        assert!(is_min(b.to_u64(), p as u8, q as u8));
        assert!(d == b.cleared(p));
        kani::cover!(p as u8 == 63);
    }
}

#[kani::proof]
pub fn c18_iter_step() {
    // one step of iteration from an arbitrary iterator state: yields the minimum, removes exactly
    // it, size_hint is exact before and after. Induction gives ascending order and exact length
    // for whole iterations of any board.
    let b = anyv::bb();
    let q = anyv::pos();
    let mut it = b.iter();
    let n = b.to_u64().count_ones() as usize;
    assert!(it.size_hint() == (n, Some(n)));
    let mut it2 = b.into_iter();
    let x = it.next();
    assert!(x == it2.next());
    match x {
        None => assert!(n == 0),
        Some(p) => {
            assert!(is_min(b.to_u64(), p as u8, q as u8));
            // everything left is strictly greater and is exactly b minus p
            let rest = it.clone().size_hint().0;
            assert!(rest == n - 1);
            assert!(it == b.cleared(p).iter());
        }
    }
}

#[kani::proof]
#[kani::unwind(6)]
pub fn c18_from_iter() {
    let items = [anyv::pos(), anyv::pos(), anyv::pos(), anyv::pos()];
    let len: usize = kani::any();
    kani::assume(len <= 4);
    let q = anyv::pos();
    let b: BitBoard = items[..len].iter().copied().collect();
    let mut expect = false;
    let mut i = 0;
    while i < len {
        expect |= items[i] == q;
        i += 1;
    }
    assert!(mem(b, q) == expect);
    let boards = [anyv::bb(), anyv::bb(), anyv::bb(), anyv::bb()];
    let u: BitBoard = boards[..len].iter().copied().collect();
    let mut expect = false;
    let mut i = 0;
    while i < len {
        expect |= mem(boards[i], q);
        i += 1;
    }
    assert!(mem(u, q) == expect);
    kani::cover!(len == 4 && expect);
}

/// "skip n then next" on a set, declaratively: the n-th element is the member with exactly n
/// smaller members; afterwards exactly the members greater than it remain. If fewer than n+1
/// members exist the answer is None and nothing remains.
fn nth_ok(b: u64, n: usize, got: Option<u8>, rest: u64) -> bool {
    if (n as u128) < b.count_ones() as u128 {
        match got {
            None => false,
            Some(p) => {
                let below = (1u64 << p) - 1;
                (b >> p) & 1 == 1 && (b & below).count_ones() as usize == n && rest == b & !below & !(1u64 << p)
            }
        }
    } else {
        got.is_none() && rest == 0
    }
}

/// `nth` as compiled in this build of chess-bitboard (the default-iterator path unless the crate
/// is built with the bmi2 target feature - see the cv-bmi2 crate for the shipped PDEP path).
#[kani::proof]
#[kani::unwind(11)]
pub fn c18_nth_default() {
    let b = anyv::bb();
    let n: usize = kani::any();
    kani::assume(n <= 8);
    let mut it = b.iter();
    let got = it.nth(n);
    let rest = match got {
        Some(p) => b.to_u64() & !((1u64 << (p as u8)) - 1) & !(1u64 << (p as u8)),
        None => 0,
    };
    assert!(nth_ok(b.to_u64(), n, got.map(|p| p as u8), rest));
    assert!(it == BitBoard::from_u64(rest).iter());
    kani::cover!(got.is_some() && n > 3);
    kani::cover!(got.is_none() && b.to_u64() != 0);
}
