//! C19 - square / file / rank / piece / move conversions, text forms and enum iterators.
use crate::anyv;
use crate::spec::geom as g;
use chess_bitboard::{Color, File, Piece, Pos, PromotionPiece, Rank, Side};
use chess_movegen::ChessMove;
use core::fmt::Write;

/// fixed-capacity fmt sink (no heap)
pub struct Sink {
    pub buf: [u8; 16],
    pub len: usize,
}
impl Sink {
    pub fn new() -> Self {
        Sink { buf: [0; 16], len: 0 }
    }
    pub fn bytes(&self) -> &[u8] {
        &self.buf[..self.len]
    }
}
impl Write for Sink {
    fn write_str(&mut self, s: &str) -> core::fmt::Result {
        for &b in s.as_bytes() {
            if self.len >= 16 {
                return Err(core::fmt::Error);
            }
            self.buf[self.len] = b;
            self.len += 1;
        }
        Ok(())
    }
}

// ---------- S-level text grammar
fn file_of_byte(b: u8) -> Option<u8> {
    if b'a' <= b && b <= b'h' {
        Some(b - b'a')
    } else if b'A' <= b && b <= b'H' {
        Some(b - b'A')
    } else {
        None
    }
}
fn rank_of_byte(b: u8) -> Option<u8> {
    if b'1' <= b && b <= b'8' {
        Some(b - b'1')
    } else {
        None
    }
}
fn pos_of_bytes(f: u8, r: u8) -> Option<u8> {
    match (file_of_byte(f), rank_of_byte(r)) {
        (Some(f), Some(r)) => Some(r * 8 + f),
        _ => None,
    }
}
fn piece_of_byte(b: u8) -> Option<u8> {
    match b {
        b'p' | b'P' => Some(0),
        b'n' | b'N' => Some(1),
        b'b' | b'B' => Some(2),
        b'r' | b'R' => Some(3),
        b'q' | b'Q' => Some(4),
        b'k' | b'K' => Some(5),
        _ => None,
    }
}

#[kani::proof]
pub fn c19_index_conversions() {
    let x: u8 = kani::any();
    match Pos::from_u8(x) {
        Some(p) => assert!(x < 64 && p.to_u8() == x && p as u8 == x && Pos::const_from_u8(x) == p),
        None => assert!(x >= 64),
    }
    match File::from_u8(x) {
        Some(f) => assert!(x < 8 && f.to_u8() == x && File::const_from_u8(x) == f),
        None => assert!(x >= 8),
    }
    match Rank::from_u8(x) {
        Some(r) => assert!(x < 8 && r.to_u8() == x && Rank::const_from_u8(x) == r),
        None => assert!(x >= 8),
    }
    match Piece::from_u8(x) {
        Some(p) => assert!(x < 6 && p as u8 == x),
        None => assert!(x >= 6),
    }
    match Color::from_u8(x) {
        Some(c) => assert!(x < 2 && c as u8 == x),
        None => assert!(x >= 2),
    }
    match Side::from_u8(x) {
        Some(s) => assert!(x < 2 && s as u8 == x),
        None => assert!(x >= 2),
    }
    let f = anyv::file();
    let r = anyv::rank();
    let p = Pos::new(f, r);
    assert!(p.file() == f && p.rank() == r && p.to_u8() == (r as u8) * 8 + f as u8);
    let q = anyv::pos();
    assert!(Pos::new(q.file(), q.rank()) == q);
    assert!(!Color::White == Color::Black && !Color::Black == Color::White);
    assert!(!Side::King == Side::Queen && !Side::Queen == Side::King);
    let pp = anyv::promo();
    if let Some(pp) = pp {
        assert!(pp.to_piece() as u8 == pp as u8 && Piece::from(pp) == pp.to_piece());
        assert!(pp.to_piece() != Piece::Pawn && pp.to_piece() != Piece::King);
    }
}

#[kani::proof]
pub fn c19_neighbour_steps() {
    let q = anyv::pos();
    let (f, r) = (g::fl(q as u8), g::rk(q as u8));
    let step = |df: i8, dr: i8| -> Option<u8> {
        if g::on(f + df, r + dr) {
            Some(g::idx(f + df, r + dr))
        } else {
            None
        }
    };
    assert!(q.shift_up().map(|p| p as u8) == step(0, 1));
    assert!(q.shift_down().map(|p| p as u8) == step(0, -1));
    assert!(q.shift_left().map(|p| p as u8) == step(-1, 0));
    assert!(q.shift_right().map(|p| p as u8) == step(1, 0));
    assert!(q.flip_rank() as u8 == g::idx(f, 7 - r));
    assert!(q.flip_rank().flip_rank() == q);
    let fi = q.file();
    let ra = q.rank();
    assert!(fi.shift_left().map(|x| x as i8) == if f > 0 { Some(f - 1) } else { None });
    assert!(fi.shift_right().map(|x| x as i8) == if f < 7 { Some(f + 1) } else { None });
    assert!(ra.shift_down().map(|x| x as i8) == if r > 0 { Some(r - 1) } else { None });
    assert!(ra.shift_up().map(|x| x as i8) == if r < 7 { Some(r + 1) } else { None });
    assert!(ra.flip() as i8 == 7 - r);
    let f2 = anyv::file();
    let r2 = anyv::rank();
    assert!(fi.dist_to(f2) as i8 == (f - f2 as i8).abs());
    assert!(ra.dist_to(r2) as i8 == (r - r2 as i8).abs());
    assert!((fi.side() == Side::Queen) == (f < 4));
    assert!(fi.lower_letter() as u32 == 'a' as u32 + f as u32);
    assert!(fi.upper_letter() as u32 == 'A' as u32 + f as u32);
    kani::cover!(q.shift_up().is_none());
    kani::cover!(q.shift_left().is_some());
}

fn any_bytes8() -> ([u8; 8], usize) {
    let buf: [u8; 8] = kani::any();
    let len: usize = kani::any();
    kani::assume(len <= 8);
    (buf, len)
}

/// parsers accept exactly the intended spellings - all byte strings of every length 0..=8
#[kani::proof]
#[kani::unwind(10)]
pub fn c19_parsers_exact() {
    let (buf, len) = any_bytes8();
    let s = &buf[..len];
    let want_file = if len == 1 { file_of_byte(buf[0]) } else { None };
    assert!(File::from_ascii_bytes(s).map(|x| x as u8) == want_file);
    let want_rank = if len == 1 { rank_of_byte(buf[0]) } else { None };
    assert!(Rank::from_ascii_bytes(s).map(|x| x as u8) == want_rank);
    let want_piece = if len == 1 { piece_of_byte(buf[0]) } else { None };
    assert!(Piece::from_ascii_bytes(s).map(|x| x as u8) == want_piece);
    let want_promo = match want_piece {
        Some(x) if x >= 1 && x <= 4 => Some(x),
        _ => None,
    };
    assert!(PromotionPiece::from_ascii_bytes(s).map(|x| x as u8) == want_promo);
    let want_pos = if len == 2 { pos_of_bytes(buf[0], buf[1]) } else { None };
    assert!(Pos::from_ascii_bytes(s).map(|x| x as u8) == want_pos);
    // single-byte entry points
    let b: u8 = kani::any();
    assert!(File::from_ascii_byte(b).map(|x| x as u8) == file_of_byte(b));
    assert!(Rank::from_ascii_byte(b).map(|x| x as u8) == rank_of_byte(b));
    assert!(Piece::from_ascii_byte(b).map(|x| x as u8) == piece_of_byte(b));
    kani::cover!(want_pos.is_some());
    kani::cover!(len == 8);
}

#[kani::proof]
#[kani::unwind(10)]
pub fn c19_move_parser_exact() {
    let (buf, len) = any_bytes8();
    let s = &buf[..len];
    let want = if len == 4 {
        match (pos_of_bytes(buf[0], buf[1]), pos_of_bytes(buf[2], buf[3])) {
            (Some(a), Some(b)) => Some((a, b)),
            _ => None,
        }
    } else if len == 5 && buf[2] == b'-' {
        match (pos_of_bytes(buf[0], buf[1]), pos_of_bytes(buf[3], buf[4])) {
            (Some(a), Some(b)) => Some((a, b)),
            _ => None,
        }
    } else {
        None
    };
    let got = ChessMove::from_ascii_bytes(s);
    assert!(got.map(|m| (m.source as u8, m.dest as u8)) == want);
    if let Some(m) = got {
        assert!(m.piece.is_none());
    }
    kani::cover!(want.is_some() && len == 5);
    kani::cover!(want.is_some() && len == 4);
}

/// FromStr entry points agree with the byte parsers on every ASCII string of length <= 5
#[kani::proof]
#[kani::unwind(10)]
pub fn c19_fromstr_agrees() {
    let buf: [u8; 5] = kani::any();
    let len: usize = kani::any();
    kani::assume(len <= 5);
    kani::assume(buf[0] < 128 && buf[1] < 128 && buf[2] < 128 && buf[3] < 128 && buf[4] < 128);
    let s = unsafe { core::str::from_utf8_unchecked(&buf[..len]) };
    assert!(s.parse::<Pos>().ok() == Pos::from_ascii_bytes(s.as_bytes()));
    assert!(s.parse::<File>().ok() == File::from_ascii_bytes(s.as_bytes()));
    assert!(s.parse::<Rank>().ok() == Rank::from_ascii_bytes(s.as_bytes()));
    assert!(s.parse::<Piece>().ok() == Piece::from_ascii_bytes(s.as_bytes()));
    assert!(s.parse::<PromotionPiece>().ok() == PromotionPiece::from_ascii_bytes(s.as_bytes()));
    assert!(s.parse::<ChessMove>().ok() == ChessMove::from_ascii_bytes(s.as_bytes()));
}

/// Display -> parse round trip of squares, files, ranks and non-promotion moves (real core::fmt)
#[kani::proof]
#[kani::unwind(18)]
pub fn c19_display_roundtrip() {
    let p = anyv::pos();
    let mut w = Sink::new();
    write!(w, "{}", p).unwrap();
    assert!(w.len == 2 && w.buf[0] == b'a' + p.file() as u8 && w.buf[1] == b'1' + p.rank() as u8);
    assert!(Pos::from_ascii_bytes(w.bytes()) == Some(p));
    let mut w = Sink::new();
    write!(w, "{}", p.file()).unwrap();
    assert!(File::from_ascii_bytes(w.bytes()) == Some(p.file()));
    let mut w = Sink::new();
    write!(w, "{}", p.rank()).unwrap();
    assert!(Rank::from_ascii_bytes(w.bytes()) == Some(p.rank()));
}

#[kani::proof]
#[kani::unwind(18)]
pub fn c19_move_display_roundtrip() {
    let m = ChessMove { source: anyv::pos(), dest: anyv::pos(), piece: None };
    let mut w = Sink::new();
    write!(w, "{}", m).unwrap();
    assert!(w.len == 5 && w.buf[2] == b'-');
    assert!(ChessMove::from_ascii_bytes(w.bytes()) == Some(m));
}

// ---------- enum iterators against the slice-iterator model, symbolic op sequences of length 4
static IDX: [u8; 8] = [0, 1, 2, 3, 4, 5, 6, 7];

macro_rules! de_iter_model {
    ($name:ident, $ctor:expr, $n:expr) => {
        #[kani::proof]
        #[kani::unwind(6)]
        pub fn $name() {
            let mut it = $ctor;
            let mut m = IDX[..$n].iter();
            let mut k = 0;
            while k < 4 {
                let op: u8 = kani::any();
                kani::assume(op < 5);
                let n: usize = kani::any();
                match op {
                    0 => assert!(it.next().map(|x| x as u8) == m.next().copied()),
                    1 => assert!(it.next_back().map(|x| x as u8) == m.next_back().copied()),
                    2 => assert!(it.nth(n).map(|x| x as u8) == m.nth(n).copied()),
                    3 => assert!(it.nth_back(n).map(|x| x as u8) == m.nth_back(n).copied()),
                    _ => assert!(it.size_hint() == m.size_hint()),
                }
                k += 1;
            }
            assert!(it.size_hint() == m.size_hint());
            let c = it.clone();
            assert!(c == it);
        }
    };
}
// harness: c19_iter_colors
// harness: c19_iter_sides
// harness: c19_iter_pieces
// harness: c19_iter_files
// harness: c19_iter_ranks
de_iter_model!(c19_iter_colors, Color::all(), 2);
de_iter_model!(c19_iter_sides, Side::all(), 2);
de_iter_model!(c19_iter_pieces, Piece::all(), 6);
de_iter_model!(c19_iter_files, File::all(), 8);
de_iter_model!(c19_iter_ranks, Rank::all(), 8);

/// forward-only iterators: Pos::all(), File::iter() (squares of a file), Rank::iter()
#[kani::proof]
#[kani::unwind(66)]
pub fn c19_iter_forward_only() {
    // Pos::all: the whole run (concrete, 64 steps): k-th item is square k, size hints exact
    let mut it = Pos::all();
    let mut j = 0usize;
    while j < 64 {
        assert!(it.size_hint() == (64 - j, Some(64 - j)));
        assert!(it.next().map(|p| p as u8 as usize) == Some(j));
        j += 1;
    }
    assert!(it.size_hint() == (0, Some(0)) && it.next().is_none() && it.next().is_none());
    // squares of a file / of a rank: k-th item and size hints
    let f = anyv::file();
    let r = anyv::rank();
    let k: usize = kani::any();
    kani::assume(k <= 8);
    let mut fi = f.iter();
    let mut ri = r.iter();
    let mut i = 0;
    while i < 3 && i < k {
        assert!(fi.next() == Some(Pos::new(f, Rank::from_u8(i as u8).unwrap())));
        assert!(ri.next() == Some(Pos::new(File::from_u8(i as u8).unwrap(), r)));
        i += 1;
    }
    assert!(fi.size_hint() == (8 - i, Some(8 - i)) && ri.size_hint() == (8 - i, Some(8 - i)));
    assert!(f.into_iter() == f.iter() && r.into_iter() == r.iter());
}

#[kani::proof]
#[kani::unwind(10)]
pub fn c19_file_rank_iter_full() {
    let f = anyv::file();
    let r = anyv::rank();
    let mut n = 0u8;
    for p in f {
        assert!(p.file() == f && p.rank() as u8 == n);
        n += 1;
    }
    assert!(n == 8);
    let mut n = 0u8;
    for p in r {
        assert!(p.rank() == r && p.file() as u8 == n);
        n += 1;
    }
    assert!(n == 8);
}
