//! C02 / C03 / C04(make-move step) - applying a legal move yields the successor the rules prescribe,
//! with correct incremental check / pin data and hash.
//!
//! Position: symbolic (eight 64-bit sets, side, rights, en-passant file, clocks) under the validity
//! predicate V. Move: symbolic (from, to, promotion). The real make-move code runs on them; the result is
//! read back field by field and compared with `rules::successor`, `rules::pins`, `rules::checkers`
//! and the delta form of the hash invariant. Closure: V holds again afterwards (so "reachable
//! from any valid position by any sequence of legal moves" stays inside V - induction instead of
//! exploring histories).
//!
//! `Board::is_legal` (= membership in the generated list, C01) is stubbed by the reference rules,
//! so the checked wrappers are exercised on legal AND illegal triples.
use super::common::*;
use crate::conv::*;
use crate::spec::fast as f;
use crate::spec::rules::*;
use chess_bitboard::BitBoard;
use chess_lookup::between as l_between;
use chess_lookup::bishop_rays as l_bishop_rays;
use chess_lookup::knight_moves as l_knight_moves;
use chess_lookup::pawn_attacks_moves as l_pawn_attacks_moves;
use chess_lookup::rook_rays as l_rook_rays;
use chess_lookup::zobrist as l_zobrist;
use chess_movegen::{Board, ChessMove};

/// bound on the mover's bishops+rooks+queens standing on a ray of the enemy king after the move
/// (trip count of the incremental check/pin loop)
const MAXATT: u32 = 8;

/// `Board::is_legal` replaced by the reference rules (licensed by C01: the generated list is
/// exactly the legal moves, and C10: `any` over the iterator sees every generated move). The
/// harness computes the reference answer once and the stub checks that it is asked about exactly
/// that board and that move.
static mut EXPECT: Option<(SBoard, SMove, bool)> = None;
fn stub_is_legal(b: &Board, mv: ChessMove) -> bool {
    let (s, m, legal) = unsafe { EXPECT }.unwrap();
    assert!(to_sboard(b).same(&s) && of_move(mv) == m);
    legal
}
fn expect(s: &SBoard, m: SMove) -> bool {
    let legal = is_legal(s, m);
    unsafe { EXPECT = Some((*s, m, legal)) };
    legal
}

/// Abstract key function standing in for the real key table in the make-move queries: injective
/// (odd multiplier), so a wrong (square, piece, colour) triple anywhere changes the xor. The
/// make-move hash property (hash moves by exactly the keys of the squares that changed) does not
/// depend on the key values; the real table's own properties are decided in c04.rs.
/// Why not the real table: CBMC over-approximates reads of the 2x64x6 table at a symbolic
/// (colour, piece) index inside these large queries (observed: a read returning a value that is
/// not in the table, top bit flipped; the counterexample does not replay, neither natively nor
/// under Kani with concrete inputs), which makes the query report spurious failures.
fn abstract_key(pos: chess_bitboard::Pos, piece: chess_bitboard::Piece, color: chess_bitboard::Color) -> u64 {
    0x9e3779b97f4a7c15u64.wrapping_mul(1 + pos as u64 + 64 * piece as u64 + 384 * color as u64)
}

/// the hash delta the rules prescribe for move m in position s (keys of every (square, piece,
/// colour) that leaves the board xor keys of every one that appears) - real key table
fn hash_delta(s: &SBoard, m: SMove) -> u64 {
    let us = s.turn;
    let them = 1 - us;
    let z = |sq: u8, p: u8, c: u8| chess_lookup::zobrist(pos(sq), piece(p), color(c));
    let moved = s.piece_at(m.from).unwrap_or(PAWN);
    let placed = match (moved, m.promo) {
        (PAWN, Some(pp)) => pp,
        _ => moved,
    };
    let mut d = z(m.from, moved, us) ^ z(m.to, placed, us);
    if has(s.colors[them as usize], m.to) {
        d ^= z(m.to, s.piece_at(m.to).unwrap_or(PAWN), them);
    } else if moved == PAWN && Some(m.to) == s.ep_square() && file_of(m.from) != file_of(m.to) {
        d ^= z(mk(file_of(m.to), rank_of(m.from)), PAWN, them);
    }
    if moved == KING && file_of(m.from) == 4 && rank_of(m.from) == rank_of(m.to) && (file_of(m.to) == 6 || file_of(m.to) == 2) {
        let r = rank_of(m.from);
        let (rf, rt) = if file_of(m.to) == 6 { (mk(7, r), mk(5, r)) } else { (mk(0, r), mk(3, r)) };
        d ^= z(rf, ROOK, us) ^ z(rt, ROOK, us);
    }
    d
}

fn bounded_attackers(n: &SBoard, mover: u8) {
    // sliders of the mover aligned with the enemy king in the successor position
    let k = n.king_sq(1 - mover);
    let own = n.colors[mover as usize];
    let att = ((n.pieces[BISHOP as usize] | n.pieces[QUEEN as usize]) & own & f::u_bishop_rays(k))
        | ((n.pieces[ROOK as usize] | n.pieces[QUEEN as usize]) & own & f::u_rook_rays(k));
    kani::assume(att.count_ones() <= MAXATT);
}

/// part 0 (C02): placement, side to move, rights, en-passant marker, clocks, hash delta
fn check_successor(s: &SBoard, m: SMove, h: u64, after: &Board) {
    let want = successor(s, m);
    let got = to_sboard(after);
    #[cfg(cv_replay)]
    if !got.same(&want) {
        crate::report::dump("C02 successor", s, Some(m));
        println!("CEX[C02] got  {:?}\nCEX[C02] want {:?}", got, want);
    }
    assert!(got.same_placement(&want));
    assert!(got.turn == want.turn);
    assert!(got.rights == want.rights);
    assert!(got.ep == want.ep);
    assert!(got.half == want.half);
    assert!(got.full == want.full);
    // colour / piece sets still a consistent partition
    assert!(got.partition_ok());
    // C04: the piece hash moved by exactly the keys of the squares that changed
    assert!(after.verif_parts().zobrist == h ^ hash_delta(s, m));
}
/// part 1 (C03 + closure): incrementally maintained check / pin data equal the from-scratch
/// definitions on the successor, and the successor is a valid position again
fn check_derived(s: &SBoard, m: SMove, after: &Board) {
    let want = successor(s, m);
    let parts = after.verif_parts();
    #[cfg(cv_replay)]
    if parts.checkers.to_u64() != checkers(&want) || parts.pinned.to_u64() != pins(&want) {
        crate::report::dump("C03 incremental", s, Some(m));
        println!("CEX[C03] checkers got {:#x} want {:#x}; pinned got {:#x} want {:#x}", parts.checkers.to_u64(), checkers(&want), parts.pinned.to_u64(), pins(&want));
    }
    assert!(parts.checkers.to_u64() == checkers(&want));
    assert!(parts.pinned.to_u64() == pins(&want));
    assert!(after.in_check() == in_check(&want, want.turn));
    // closure of the validity predicate under legal moves (the induction step over histories)
    assert!(valid(&want));
}

macro_rules! stubs {
    ($(#[$a:meta])* pub fn $name:ident() $b:block) => {
        $(#[$a])*
        #[kani::stub(l_between, f::between)]
        #[kani::stub(l_rook_rays, f::rook_rays)]
        #[kani::stub(l_bishop_rays, f::bishop_rays)]
        #[kani::stub(l_knight_moves, f::knight_moves)]
        #[kani::stub(l_pawn_attacks_moves, f::pawn_attacks_moves)]
        #[kani::stub(chess_movegen::Board::is_legal, stub_is_legal)]
        #[kani::stub(l_zobrist, abstract_key)]
        pub fn $name() $b
    };
}

fn any_position_and_move() -> (SBoard, SMove, u64, Board) {
    any_position_and_move_kk(None, None, None)
}
fn any_position_and_move_kk(turn: Option<u8>, ksq: Option<u8>, eksq: Option<u8>) -> (SBoard, SMove, u64, Board) {
    let s = any_sboard_kk(turn, ksq, eksq);
    kani::assume(valid(&s));
    // the property's own bound: clock values below the 16-bit limit
    kani::assume(s.half < u16::MAX && s.full < u16::MAX);
    let m = any_smove();
    let h: u64 = kani::any();
    // cached pin/check data of the PRE-state are arbitrary: make-move must not depend on them
    let b = to_board(&s, kani::any(), kani::any(), h);
    (s, m, h, b)
}

fn body_move_new_kk(part: u8, kind: u8, turn: Option<u8>, ksq: Option<u8>, eksq: Option<u8>) {
    let (s, m, h, b) = any_position_and_move_kk(turn, ksq, eksq);
    // split by the kind of the moving piece so that the queries run in parallel
    kani::assume(s.piece_at(m.from) == Some(kind));
    let legal = expect(&s, m);
    if legal {
        bounded_attackers(&successor(&s, m), s.turn);
    }
    let r = b.move_new(to_move(m));
    // accepted exactly when legal
    assert!(r.is_some() == legal);
    if let Some(after) = r {
        if part == 0 {
            check_successor(&s, m, h, &after);
        } else {
            check_derived(&s, m, &after);
        }
    }
    // the receiver is never modified
    assert!(to_sboard(&b).same(&s) && b.verif_parts().zobrist == h);
    kani::cover!(legal);
    kani::cover!(!legal && pseudo_legal(&s, m));
}

// Shape of the queries: side to move and the ENEMY king's square are constants per harness
// (index i = turn * 64 + enemy king square), everything else - the mover's king included - is
// symbolic. The incremental check/pin code works relative to the enemy king, so its rays become
// constants; measured: ~6 min per query, while the fully symbolic query exceeds 12 GB.
macro_rules! move_new_ek {
    ($name:ident, $part:expr, $kind:expr, $turn:expr, $eksq:expr) => {
        stubs! {
            #[kani::proof]
            #[kani::unwind(10)]
            pub fn $name() { body_move_new_kk($part, $kind, Some($turn), None, Some($eksq)) }
        }
    };
}
// harness-family: c02_pawn_ek_{0..127}
move_new_ek!(c02_pawn_ek_0, 0, PAWN, 0, 0);
move_new_ek!(c02_pawn_ek_1, 0, PAWN, 0, 1);
move_new_ek!(c02_pawn_ek_2, 0, PAWN, 0, 2);
move_new_ek!(c02_pawn_ek_3, 0, PAWN, 0, 3);
move_new_ek!(c02_pawn_ek_4, 0, PAWN, 0, 4);
move_new_ek!(c02_pawn_ek_5, 0, PAWN, 0, 5);
move_new_ek!(c02_pawn_ek_6, 0, PAWN, 0, 6);
move_new_ek!(c02_pawn_ek_7, 0, PAWN, 0, 7);
move_new_ek!(c02_pawn_ek_8, 0, PAWN, 0, 8);
move_new_ek!(c02_pawn_ek_9, 0, PAWN, 0, 9);
move_new_ek!(c02_pawn_ek_10, 0, PAWN, 0, 10);
move_new_ek!(c02_pawn_ek_11, 0, PAWN, 0, 11);
move_new_ek!(c02_pawn_ek_12, 0, PAWN, 0, 12);
move_new_ek!(c02_pawn_ek_13, 0, PAWN, 0, 13);
move_new_ek!(c02_pawn_ek_14, 0, PAWN, 0, 14);
move_new_ek!(c02_pawn_ek_15, 0, PAWN, 0, 15);
move_new_ek!(c02_pawn_ek_16, 0, PAWN, 0, 16);
move_new_ek!(c02_pawn_ek_17, 0, PAWN, 0, 17);
move_new_ek!(c02_pawn_ek_18, 0, PAWN, 0, 18);
move_new_ek!(c02_pawn_ek_19, 0, PAWN, 0, 19);
move_new_ek!(c02_pawn_ek_20, 0, PAWN, 0, 20);
move_new_ek!(c02_pawn_ek_21, 0, PAWN, 0, 21);
move_new_ek!(c02_pawn_ek_22, 0, PAWN, 0, 22);
move_new_ek!(c02_pawn_ek_23, 0, PAWN, 0, 23);
move_new_ek!(c02_pawn_ek_24, 0, PAWN, 0, 24);
move_new_ek!(c02_pawn_ek_25, 0, PAWN, 0, 25);
move_new_ek!(c02_pawn_ek_26, 0, PAWN, 0, 26);
move_new_ek!(c02_pawn_ek_27, 0, PAWN, 0, 27);
move_new_ek!(c02_pawn_ek_28, 0, PAWN, 0, 28);
move_new_ek!(c02_pawn_ek_29, 0, PAWN, 0, 29);
move_new_ek!(c02_pawn_ek_30, 0, PAWN, 0, 30);
move_new_ek!(c02_pawn_ek_31, 0, PAWN, 0, 31);
move_new_ek!(c02_pawn_ek_32, 0, PAWN, 0, 32);
move_new_ek!(c02_pawn_ek_33, 0, PAWN, 0, 33);
move_new_ek!(c02_pawn_ek_34, 0, PAWN, 0, 34);
move_new_ek!(c02_pawn_ek_35, 0, PAWN, 0, 35);
move_new_ek!(c02_pawn_ek_36, 0, PAWN, 0, 36);
move_new_ek!(c02_pawn_ek_37, 0, PAWN, 0, 37);
move_new_ek!(c02_pawn_ek_38, 0, PAWN, 0, 38);
move_new_ek!(c02_pawn_ek_39, 0, PAWN, 0, 39);
move_new_ek!(c02_pawn_ek_40, 0, PAWN, 0, 40);
move_new_ek!(c02_pawn_ek_41, 0, PAWN, 0, 41);
move_new_ek!(c02_pawn_ek_42, 0, PAWN, 0, 42);
move_new_ek!(c02_pawn_ek_43, 0, PAWN, 0, 43);
move_new_ek!(c02_pawn_ek_44, 0, PAWN, 0, 44);
move_new_ek!(c02_pawn_ek_45, 0, PAWN, 0, 45);
move_new_ek!(c02_pawn_ek_46, 0, PAWN, 0, 46);
move_new_ek!(c02_pawn_ek_47, 0, PAWN, 0, 47);
move_new_ek!(c02_pawn_ek_48, 0, PAWN, 0, 48);
move_new_ek!(c02_pawn_ek_49, 0, PAWN, 0, 49);
move_new_ek!(c02_pawn_ek_50, 0, PAWN, 0, 50);
move_new_ek!(c02_pawn_ek_51, 0, PAWN, 0, 51);
move_new_ek!(c02_pawn_ek_52, 0, PAWN, 0, 52);
move_new_ek!(c02_pawn_ek_53, 0, PAWN, 0, 53);
move_new_ek!(c02_pawn_ek_54, 0, PAWN, 0, 54);
move_new_ek!(c02_pawn_ek_55, 0, PAWN, 0, 55);
move_new_ek!(c02_pawn_ek_56, 0, PAWN, 0, 56);
move_new_ek!(c02_pawn_ek_57, 0, PAWN, 0, 57);
move_new_ek!(c02_pawn_ek_58, 0, PAWN, 0, 58);
move_new_ek!(c02_pawn_ek_59, 0, PAWN, 0, 59);
move_new_ek!(c02_pawn_ek_60, 0, PAWN, 0, 60);
move_new_ek!(c02_pawn_ek_61, 0, PAWN, 0, 61);
move_new_ek!(c02_pawn_ek_62, 0, PAWN, 0, 62);
move_new_ek!(c02_pawn_ek_63, 0, PAWN, 0, 63);
move_new_ek!(c02_pawn_ek_64, 0, PAWN, 1, 0);
move_new_ek!(c02_pawn_ek_65, 0, PAWN, 1, 1);
move_new_ek!(c02_pawn_ek_66, 0, PAWN, 1, 2);
move_new_ek!(c02_pawn_ek_67, 0, PAWN, 1, 3);
move_new_ek!(c02_pawn_ek_68, 0, PAWN, 1, 4);
move_new_ek!(c02_pawn_ek_69, 0, PAWN, 1, 5);
move_new_ek!(c02_pawn_ek_70, 0, PAWN, 1, 6);
move_new_ek!(c02_pawn_ek_71, 0, PAWN, 1, 7);
move_new_ek!(c02_pawn_ek_72, 0, PAWN, 1, 8);
move_new_ek!(c02_pawn_ek_73, 0, PAWN, 1, 9);
move_new_ek!(c02_pawn_ek_74, 0, PAWN, 1, 10);
move_new_ek!(c02_pawn_ek_75, 0, PAWN, 1, 11);
move_new_ek!(c02_pawn_ek_76, 0, PAWN, 1, 12);
move_new_ek!(c02_pawn_ek_77, 0, PAWN, 1, 13);
move_new_ek!(c02_pawn_ek_78, 0, PAWN, 1, 14);
move_new_ek!(c02_pawn_ek_79, 0, PAWN, 1, 15);
move_new_ek!(c02_pawn_ek_80, 0, PAWN, 1, 16);
move_new_ek!(c02_pawn_ek_81, 0, PAWN, 1, 17);
move_new_ek!(c02_pawn_ek_82, 0, PAWN, 1, 18);
move_new_ek!(c02_pawn_ek_83, 0, PAWN, 1, 19);
move_new_ek!(c02_pawn_ek_84, 0, PAWN, 1, 20);
move_new_ek!(c02_pawn_ek_85, 0, PAWN, 1, 21);
move_new_ek!(c02_pawn_ek_86, 0, PAWN, 1, 22);
move_new_ek!(c02_pawn_ek_87, 0, PAWN, 1, 23);
move_new_ek!(c02_pawn_ek_88, 0, PAWN, 1, 24);
move_new_ek!(c02_pawn_ek_89, 0, PAWN, 1, 25);
move_new_ek!(c02_pawn_ek_90, 0, PAWN, 1, 26);
move_new_ek!(c02_pawn_ek_91, 0, PAWN, 1, 27);
move_new_ek!(c02_pawn_ek_92, 0, PAWN, 1, 28);
move_new_ek!(c02_pawn_ek_93, 0, PAWN, 1, 29);
move_new_ek!(c02_pawn_ek_94, 0, PAWN, 1, 30);
move_new_ek!(c02_pawn_ek_95, 0, PAWN, 1, 31);
move_new_ek!(c02_pawn_ek_96, 0, PAWN, 1, 32);
move_new_ek!(c02_pawn_ek_97, 0, PAWN, 1, 33);
move_new_ek!(c02_pawn_ek_98, 0, PAWN, 1, 34);
move_new_ek!(c02_pawn_ek_99, 0, PAWN, 1, 35);
move_new_ek!(c02_pawn_ek_100, 0, PAWN, 1, 36);
move_new_ek!(c02_pawn_ek_101, 0, PAWN, 1, 37);
move_new_ek!(c02_pawn_ek_102, 0, PAWN, 1, 38);
move_new_ek!(c02_pawn_ek_103, 0, PAWN, 1, 39);
move_new_ek!(c02_pawn_ek_104, 0, PAWN, 1, 40);
move_new_ek!(c02_pawn_ek_105, 0, PAWN, 1, 41);
move_new_ek!(c02_pawn_ek_106, 0, PAWN, 1, 42);
move_new_ek!(c02_pawn_ek_107, 0, PAWN, 1, 43);
move_new_ek!(c02_pawn_ek_108, 0, PAWN, 1, 44);
move_new_ek!(c02_pawn_ek_109, 0, PAWN, 1, 45);
move_new_ek!(c02_pawn_ek_110, 0, PAWN, 1, 46);
move_new_ek!(c02_pawn_ek_111, 0, PAWN, 1, 47);
move_new_ek!(c02_pawn_ek_112, 0, PAWN, 1, 48);
move_new_ek!(c02_pawn_ek_113, 0, PAWN, 1, 49);
move_new_ek!(c02_pawn_ek_114, 0, PAWN, 1, 50);
move_new_ek!(c02_pawn_ek_115, 0, PAWN, 1, 51);
move_new_ek!(c02_pawn_ek_116, 0, PAWN, 1, 52);
move_new_ek!(c02_pawn_ek_117, 0, PAWN, 1, 53);
move_new_ek!(c02_pawn_ek_118, 0, PAWN, 1, 54);
move_new_ek!(c02_pawn_ek_119, 0, PAWN, 1, 55);
move_new_ek!(c02_pawn_ek_120, 0, PAWN, 1, 56);
move_new_ek!(c02_pawn_ek_121, 0, PAWN, 1, 57);
move_new_ek!(c02_pawn_ek_122, 0, PAWN, 1, 58);
move_new_ek!(c02_pawn_ek_123, 0, PAWN, 1, 59);
move_new_ek!(c02_pawn_ek_124, 0, PAWN, 1, 60);
move_new_ek!(c02_pawn_ek_125, 0, PAWN, 1, 61);
move_new_ek!(c02_pawn_ek_126, 0, PAWN, 1, 62);
move_new_ek!(c02_pawn_ek_127, 0, PAWN, 1, 63);
// harness-family: c02_knight_ek_{0..127}
move_new_ek!(c02_knight_ek_0, 0, KNIGHT, 0, 0);
move_new_ek!(c02_knight_ek_1, 0, KNIGHT, 0, 1);
move_new_ek!(c02_knight_ek_2, 0, KNIGHT, 0, 2);
move_new_ek!(c02_knight_ek_3, 0, KNIGHT, 0, 3);
move_new_ek!(c02_knight_ek_4, 0, KNIGHT, 0, 4);
move_new_ek!(c02_knight_ek_5, 0, KNIGHT, 0, 5);
move_new_ek!(c02_knight_ek_6, 0, KNIGHT, 0, 6);
move_new_ek!(c02_knight_ek_7, 0, KNIGHT, 0, 7);
move_new_ek!(c02_knight_ek_8, 0, KNIGHT, 0, 8);
move_new_ek!(c02_knight_ek_9, 0, KNIGHT, 0, 9);
move_new_ek!(c02_knight_ek_10, 0, KNIGHT, 0, 10);
move_new_ek!(c02_knight_ek_11, 0, KNIGHT, 0, 11);
move_new_ek!(c02_knight_ek_12, 0, KNIGHT, 0, 12);
move_new_ek!(c02_knight_ek_13, 0, KNIGHT, 0, 13);
move_new_ek!(c02_knight_ek_14, 0, KNIGHT, 0, 14);
move_new_ek!(c02_knight_ek_15, 0, KNIGHT, 0, 15);
move_new_ek!(c02_knight_ek_16, 0, KNIGHT, 0, 16);
move_new_ek!(c02_knight_ek_17, 0, KNIGHT, 0, 17);
move_new_ek!(c02_knight_ek_18, 0, KNIGHT, 0, 18);
move_new_ek!(c02_knight_ek_19, 0, KNIGHT, 0, 19);
move_new_ek!(c02_knight_ek_20, 0, KNIGHT, 0, 20);
move_new_ek!(c02_knight_ek_21, 0, KNIGHT, 0, 21);
move_new_ek!(c02_knight_ek_22, 0, KNIGHT, 0, 22);
move_new_ek!(c02_knight_ek_23, 0, KNIGHT, 0, 23);
move_new_ek!(c02_knight_ek_24, 0, KNIGHT, 0, 24);
move_new_ek!(c02_knight_ek_25, 0, KNIGHT, 0, 25);
move_new_ek!(c02_knight_ek_26, 0, KNIGHT, 0, 26);
move_new_ek!(c02_knight_ek_27, 0, KNIGHT, 0, 27);
move_new_ek!(c02_knight_ek_28, 0, KNIGHT, 0, 28);
move_new_ek!(c02_knight_ek_29, 0, KNIGHT, 0, 29);
move_new_ek!(c02_knight_ek_30, 0, KNIGHT, 0, 30);
move_new_ek!(c02_knight_ek_31, 0, KNIGHT, 0, 31);
move_new_ek!(c02_knight_ek_32, 0, KNIGHT, 0, 32);
move_new_ek!(c02_knight_ek_33, 0, KNIGHT, 0, 33);
move_new_ek!(c02_knight_ek_34, 0, KNIGHT, 0, 34);
move_new_ek!(c02_knight_ek_35, 0, KNIGHT, 0, 35);
move_new_ek!(c02_knight_ek_36, 0, KNIGHT, 0, 36);
move_new_ek!(c02_knight_ek_37, 0, KNIGHT, 0, 37);
move_new_ek!(c02_knight_ek_38, 0, KNIGHT, 0, 38);
move_new_ek!(c02_knight_ek_39, 0, KNIGHT, 0, 39);
move_new_ek!(c02_knight_ek_40, 0, KNIGHT, 0, 40);
move_new_ek!(c02_knight_ek_41, 0, KNIGHT, 0, 41);
move_new_ek!(c02_knight_ek_42, 0, KNIGHT, 0, 42);
move_new_ek!(c02_knight_ek_43, 0, KNIGHT, 0, 43);
move_new_ek!(c02_knight_ek_44, 0, KNIGHT, 0, 44);
move_new_ek!(c02_knight_ek_45, 0, KNIGHT, 0, 45);
move_new_ek!(c02_knight_ek_46, 0, KNIGHT, 0, 46);
move_new_ek!(c02_knight_ek_47, 0, KNIGHT, 0, 47);
move_new_ek!(c02_knight_ek_48, 0, KNIGHT, 0, 48);
move_new_ek!(c02_knight_ek_49, 0, KNIGHT, 0, 49);
move_new_ek!(c02_knight_ek_50, 0, KNIGHT, 0, 50);
move_new_ek!(c02_knight_ek_51, 0, KNIGHT, 0, 51);
move_new_ek!(c02_knight_ek_52, 0, KNIGHT, 0, 52);
move_new_ek!(c02_knight_ek_53, 0, KNIGHT, 0, 53);
move_new_ek!(c02_knight_ek_54, 0, KNIGHT, 0, 54);
move_new_ek!(c02_knight_ek_55, 0, KNIGHT, 0, 55);
move_new_ek!(c02_knight_ek_56, 0, KNIGHT, 0, 56);
move_new_ek!(c02_knight_ek_57, 0, KNIGHT, 0, 57);
move_new_ek!(c02_knight_ek_58, 0, KNIGHT, 0, 58);
move_new_ek!(c02_knight_ek_59, 0, KNIGHT, 0, 59);
move_new_ek!(c02_knight_ek_60, 0, KNIGHT, 0, 60);
move_new_ek!(c02_knight_ek_61, 0, KNIGHT, 0, 61);
move_new_ek!(c02_knight_ek_62, 0, KNIGHT, 0, 62);
move_new_ek!(c02_knight_ek_63, 0, KNIGHT, 0, 63);
move_new_ek!(c02_knight_ek_64, 0, KNIGHT, 1, 0);
move_new_ek!(c02_knight_ek_65, 0, KNIGHT, 1, 1);
move_new_ek!(c02_knight_ek_66, 0, KNIGHT, 1, 2);
move_new_ek!(c02_knight_ek_67, 0, KNIGHT, 1, 3);
move_new_ek!(c02_knight_ek_68, 0, KNIGHT, 1, 4);
move_new_ek!(c02_knight_ek_69, 0, KNIGHT, 1, 5);
move_new_ek!(c02_knight_ek_70, 0, KNIGHT, 1, 6);
move_new_ek!(c02_knight_ek_71, 0, KNIGHT, 1, 7);
move_new_ek!(c02_knight_ek_72, 0, KNIGHT, 1, 8);
move_new_ek!(c02_knight_ek_73, 0, KNIGHT, 1, 9);
move_new_ek!(c02_knight_ek_74, 0, KNIGHT, 1, 10);
move_new_ek!(c02_knight_ek_75, 0, KNIGHT, 1, 11);
move_new_ek!(c02_knight_ek_76, 0, KNIGHT, 1, 12);
move_new_ek!(c02_knight_ek_77, 0, KNIGHT, 1, 13);
move_new_ek!(c02_knight_ek_78, 0, KNIGHT, 1, 14);
move_new_ek!(c02_knight_ek_79, 0, KNIGHT, 1, 15);
move_new_ek!(c02_knight_ek_80, 0, KNIGHT, 1, 16);
move_new_ek!(c02_knight_ek_81, 0, KNIGHT, 1, 17);
move_new_ek!(c02_knight_ek_82, 0, KNIGHT, 1, 18);
move_new_ek!(c02_knight_ek_83, 0, KNIGHT, 1, 19);
move_new_ek!(c02_knight_ek_84, 0, KNIGHT, 1, 20);
move_new_ek!(c02_knight_ek_85, 0, KNIGHT, 1, 21);
move_new_ek!(c02_knight_ek_86, 0, KNIGHT, 1, 22);
move_new_ek!(c02_knight_ek_87, 0, KNIGHT, 1, 23);
move_new_ek!(c02_knight_ek_88, 0, KNIGHT, 1, 24);
move_new_ek!(c02_knight_ek_89, 0, KNIGHT, 1, 25);
move_new_ek!(c02_knight_ek_90, 0, KNIGHT, 1, 26);
move_new_ek!(c02_knight_ek_91, 0, KNIGHT, 1, 27);
move_new_ek!(c02_knight_ek_92, 0, KNIGHT, 1, 28);
move_new_ek!(c02_knight_ek_93, 0, KNIGHT, 1, 29);
move_new_ek!(c02_knight_ek_94, 0, KNIGHT, 1, 30);
move_new_ek!(c02_knight_ek_95, 0, KNIGHT, 1, 31);
move_new_ek!(c02_knight_ek_96, 0, KNIGHT, 1, 32);
move_new_ek!(c02_knight_ek_97, 0, KNIGHT, 1, 33);
move_new_ek!(c02_knight_ek_98, 0, KNIGHT, 1, 34);
move_new_ek!(c02_knight_ek_99, 0, KNIGHT, 1, 35);
move_new_ek!(c02_knight_ek_100, 0, KNIGHT, 1, 36);
move_new_ek!(c02_knight_ek_101, 0, KNIGHT, 1, 37);
move_new_ek!(c02_knight_ek_102, 0, KNIGHT, 1, 38);
move_new_ek!(c02_knight_ek_103, 0, KNIGHT, 1, 39);
move_new_ek!(c02_knight_ek_104, 0, KNIGHT, 1, 40);
move_new_ek!(c02_knight_ek_105, 0, KNIGHT, 1, 41);
move_new_ek!(c02_knight_ek_106, 0, KNIGHT, 1, 42);
move_new_ek!(c02_knight_ek_107, 0, KNIGHT, 1, 43);
move_new_ek!(c02_knight_ek_108, 0, KNIGHT, 1, 44);
move_new_ek!(c02_knight_ek_109, 0, KNIGHT, 1, 45);
move_new_ek!(c02_knight_ek_110, 0, KNIGHT, 1, 46);
move_new_ek!(c02_knight_ek_111, 0, KNIGHT, 1, 47);
move_new_ek!(c02_knight_ek_112, 0, KNIGHT, 1, 48);
move_new_ek!(c02_knight_ek_113, 0, KNIGHT, 1, 49);
move_new_ek!(c02_knight_ek_114, 0, KNIGHT, 1, 50);
move_new_ek!(c02_knight_ek_115, 0, KNIGHT, 1, 51);
move_new_ek!(c02_knight_ek_116, 0, KNIGHT, 1, 52);
move_new_ek!(c02_knight_ek_117, 0, KNIGHT, 1, 53);
move_new_ek!(c02_knight_ek_118, 0, KNIGHT, 1, 54);
move_new_ek!(c02_knight_ek_119, 0, KNIGHT, 1, 55);
move_new_ek!(c02_knight_ek_120, 0, KNIGHT, 1, 56);
move_new_ek!(c02_knight_ek_121, 0, KNIGHT, 1, 57);
move_new_ek!(c02_knight_ek_122, 0, KNIGHT, 1, 58);
move_new_ek!(c02_knight_ek_123, 0, KNIGHT, 1, 59);
move_new_ek!(c02_knight_ek_124, 0, KNIGHT, 1, 60);
move_new_ek!(c02_knight_ek_125, 0, KNIGHT, 1, 61);
move_new_ek!(c02_knight_ek_126, 0, KNIGHT, 1, 62);
move_new_ek!(c02_knight_ek_127, 0, KNIGHT, 1, 63);
// harness-family: c02_bishop_ek_{0..127}
move_new_ek!(c02_bishop_ek_0, 0, BISHOP, 0, 0);
move_new_ek!(c02_bishop_ek_1, 0, BISHOP, 0, 1);
move_new_ek!(c02_bishop_ek_2, 0, BISHOP, 0, 2);
move_new_ek!(c02_bishop_ek_3, 0, BISHOP, 0, 3);
move_new_ek!(c02_bishop_ek_4, 0, BISHOP, 0, 4);
move_new_ek!(c02_bishop_ek_5, 0, BISHOP, 0, 5);
move_new_ek!(c02_bishop_ek_6, 0, BISHOP, 0, 6);
move_new_ek!(c02_bishop_ek_7, 0, BISHOP, 0, 7);
move_new_ek!(c02_bishop_ek_8, 0, BISHOP, 0, 8);
move_new_ek!(c02_bishop_ek_9, 0, BISHOP, 0, 9);
move_new_ek!(c02_bishop_ek_10, 0, BISHOP, 0, 10);
move_new_ek!(c02_bishop_ek_11, 0, BISHOP, 0, 11);
move_new_ek!(c02_bishop_ek_12, 0, BISHOP, 0, 12);
move_new_ek!(c02_bishop_ek_13, 0, BISHOP, 0, 13);
move_new_ek!(c02_bishop_ek_14, 0, BISHOP, 0, 14);
move_new_ek!(c02_bishop_ek_15, 0, BISHOP, 0, 15);
move_new_ek!(c02_bishop_ek_16, 0, BISHOP, 0, 16);
move_new_ek!(c02_bishop_ek_17, 0, BISHOP, 0, 17);
move_new_ek!(c02_bishop_ek_18, 0, BISHOP, 0, 18);
move_new_ek!(c02_bishop_ek_19, 0, BISHOP, 0, 19);
move_new_ek!(c02_bishop_ek_20, 0, BISHOP, 0, 20);
move_new_ek!(c02_bishop_ek_21, 0, BISHOP, 0, 21);
move_new_ek!(c02_bishop_ek_22, 0, BISHOP, 0, 22);
move_new_ek!(c02_bishop_ek_23, 0, BISHOP, 0, 23);
move_new_ek!(c02_bishop_ek_24, 0, BISHOP, 0, 24);
move_new_ek!(c02_bishop_ek_25, 0, BISHOP, 0, 25);
move_new_ek!(c02_bishop_ek_26, 0, BISHOP, 0, 26);
move_new_ek!(c02_bishop_ek_27, 0, BISHOP, 0, 27);
move_new_ek!(c02_bishop_ek_28, 0, BISHOP, 0, 28);
move_new_ek!(c02_bishop_ek_29, 0, BISHOP, 0, 29);
move_new_ek!(c02_bishop_ek_30, 0, BISHOP, 0, 30);
move_new_ek!(c02_bishop_ek_31, 0, BISHOP, 0, 31);
move_new_ek!(c02_bishop_ek_32, 0, BISHOP, 0, 32);
move_new_ek!(c02_bishop_ek_33, 0, BISHOP, 0, 33);
move_new_ek!(c02_bishop_ek_34, 0, BISHOP, 0, 34);
move_new_ek!(c02_bishop_ek_35, 0, BISHOP, 0, 35);
move_new_ek!(c02_bishop_ek_36, 0, BISHOP, 0, 36);
move_new_ek!(c02_bishop_ek_37, 0, BISHOP, 0, 37);
move_new_ek!(c02_bishop_ek_38, 0, BISHOP, 0, 38);
move_new_ek!(c02_bishop_ek_39, 0, BISHOP, 0, 39);
move_new_ek!(c02_bishop_ek_40, 0, BISHOP, 0, 40);
move_new_ek!(c02_bishop_ek_41, 0, BISHOP, 0, 41);
move_new_ek!(c02_bishop_ek_42, 0, BISHOP, 0, 42);
move_new_ek!(c02_bishop_ek_43, 0, BISHOP, 0, 43);
move_new_ek!(c02_bishop_ek_44, 0, BISHOP, 0, 44);
move_new_ek!(c02_bishop_ek_45, 0, BISHOP, 0, 45);
move_new_ek!(c02_bishop_ek_46, 0, BISHOP, 0, 46);
move_new_ek!(c02_bishop_ek_47, 0, BISHOP, 0, 47);
move_new_ek!(c02_bishop_ek_48, 0, BISHOP, 0, 48);
move_new_ek!(c02_bishop_ek_49, 0, BISHOP, 0, 49);
move_new_ek!(c02_bishop_ek_50, 0, BISHOP, 0, 50);
move_new_ek!(c02_bishop_ek_51, 0, BISHOP, 0, 51);
move_new_ek!(c02_bishop_ek_52, 0, BISHOP, 0, 52);
move_new_ek!(c02_bishop_ek_53, 0, BISHOP, 0, 53);
move_new_ek!(c02_bishop_ek_54, 0, BISHOP, 0, 54);
move_new_ek!(c02_bishop_ek_55, 0, BISHOP, 0, 55);
move_new_ek!(c02_bishop_ek_56, 0, BISHOP, 0, 56);
move_new_ek!(c02_bishop_ek_57, 0, BISHOP, 0, 57);
move_new_ek!(c02_bishop_ek_58, 0, BISHOP, 0, 58);
move_new_ek!(c02_bishop_ek_59, 0, BISHOP, 0, 59);
move_new_ek!(c02_bishop_ek_60, 0, BISHOP, 0, 60);
move_new_ek!(c02_bishop_ek_61, 0, BISHOP, 0, 61);
move_new_ek!(c02_bishop_ek_62, 0, BISHOP, 0, 62);
move_new_ek!(c02_bishop_ek_63, 0, BISHOP, 0, 63);
move_new_ek!(c02_bishop_ek_64, 0, BISHOP, 1, 0);
move_new_ek!(c02_bishop_ek_65, 0, BISHOP, 1, 1);
move_new_ek!(c02_bishop_ek_66, 0, BISHOP, 1, 2);
move_new_ek!(c02_bishop_ek_67, 0, BISHOP, 1, 3);
move_new_ek!(c02_bishop_ek_68, 0, BISHOP, 1, 4);
move_new_ek!(c02_bishop_ek_69, 0, BISHOP, 1, 5);
move_new_ek!(c02_bishop_ek_70, 0, BISHOP, 1, 6);
move_new_ek!(c02_bishop_ek_71, 0, BISHOP, 1, 7);
move_new_ek!(c02_bishop_ek_72, 0, BISHOP, 1, 8);
move_new_ek!(c02_bishop_ek_73, 0, BISHOP, 1, 9);
move_new_ek!(c02_bishop_ek_74, 0, BISHOP, 1, 10);
move_new_ek!(c02_bishop_ek_75, 0, BISHOP, 1, 11);
move_new_ek!(c02_bishop_ek_76, 0, BISHOP, 1, 12);
move_new_ek!(c02_bishop_ek_77, 0, BISHOP, 1, 13);
move_new_ek!(c02_bishop_ek_78, 0, BISHOP, 1, 14);
move_new_ek!(c02_bishop_ek_79, 0, BISHOP, 1, 15);
move_new_ek!(c02_bishop_ek_80, 0, BISHOP, 1, 16);
move_new_ek!(c02_bishop_ek_81, 0, BISHOP, 1, 17);
move_new_ek!(c02_bishop_ek_82, 0, BISHOP, 1, 18);
move_new_ek!(c02_bishop_ek_83, 0, BISHOP, 1, 19);
move_new_ek!(c02_bishop_ek_84, 0, BISHOP, 1, 20);
move_new_ek!(c02_bishop_ek_85, 0, BISHOP, 1, 21);
move_new_ek!(c02_bishop_ek_86, 0, BISHOP, 1, 22);
move_new_ek!(c02_bishop_ek_87, 0, BISHOP, 1, 23);
move_new_ek!(c02_bishop_ek_88, 0, BISHOP, 1, 24);
move_new_ek!(c02_bishop_ek_89, 0, BISHOP, 1, 25);
move_new_ek!(c02_bishop_ek_90, 0, BISHOP, 1, 26);
move_new_ek!(c02_bishop_ek_91, 0, BISHOP, 1, 27);
move_new_ek!(c02_bishop_ek_92, 0, BISHOP, 1, 28);
move_new_ek!(c02_bishop_ek_93, 0, BISHOP, 1, 29);
move_new_ek!(c02_bishop_ek_94, 0, BISHOP, 1, 30);
move_new_ek!(c02_bishop_ek_95, 0, BISHOP, 1, 31);
move_new_ek!(c02_bishop_ek_96, 0, BISHOP, 1, 32);
move_new_ek!(c02_bishop_ek_97, 0, BISHOP, 1, 33);
move_new_ek!(c02_bishop_ek_98, 0, BISHOP, 1, 34);
move_new_ek!(c02_bishop_ek_99, 0, BISHOP, 1, 35);
move_new_ek!(c02_bishop_ek_100, 0, BISHOP, 1, 36);
move_new_ek!(c02_bishop_ek_101, 0, BISHOP, 1, 37);
move_new_ek!(c02_bishop_ek_102, 0, BISHOP, 1, 38);
move_new_ek!(c02_bishop_ek_103, 0, BISHOP, 1, 39);
move_new_ek!(c02_bishop_ek_104, 0, BISHOP, 1, 40);
move_new_ek!(c02_bishop_ek_105, 0, BISHOP, 1, 41);
move_new_ek!(c02_bishop_ek_106, 0, BISHOP, 1, 42);
move_new_ek!(c02_bishop_ek_107, 0, BISHOP, 1, 43);
move_new_ek!(c02_bishop_ek_108, 0, BISHOP, 1, 44);
move_new_ek!(c02_bishop_ek_109, 0, BISHOP, 1, 45);
move_new_ek!(c02_bishop_ek_110, 0, BISHOP, 1, 46);
move_new_ek!(c02_bishop_ek_111, 0, BISHOP, 1, 47);
move_new_ek!(c02_bishop_ek_112, 0, BISHOP, 1, 48);
move_new_ek!(c02_bishop_ek_113, 0, BISHOP, 1, 49);
move_new_ek!(c02_bishop_ek_114, 0, BISHOP, 1, 50);
move_new_ek!(c02_bishop_ek_115, 0, BISHOP, 1, 51);
move_new_ek!(c02_bishop_ek_116, 0, BISHOP, 1, 52);
move_new_ek!(c02_bishop_ek_117, 0, BISHOP, 1, 53);
move_new_ek!(c02_bishop_ek_118, 0, BISHOP, 1, 54);
move_new_ek!(c02_bishop_ek_119, 0, BISHOP, 1, 55);
move_new_ek!(c02_bishop_ek_120, 0, BISHOP, 1, 56);
move_new_ek!(c02_bishop_ek_121, 0, BISHOP, 1, 57);
move_new_ek!(c02_bishop_ek_122, 0, BISHOP, 1, 58);
move_new_ek!(c02_bishop_ek_123, 0, BISHOP, 1, 59);
move_new_ek!(c02_bishop_ek_124, 0, BISHOP, 1, 60);
move_new_ek!(c02_bishop_ek_125, 0, BISHOP, 1, 61);
move_new_ek!(c02_bishop_ek_126, 0, BISHOP, 1, 62);
move_new_ek!(c02_bishop_ek_127, 0, BISHOP, 1, 63);
// harness-family: c02_rook_ek_{0..127}
move_new_ek!(c02_rook_ek_0, 0, ROOK, 0, 0);
move_new_ek!(c02_rook_ek_1, 0, ROOK, 0, 1);
move_new_ek!(c02_rook_ek_2, 0, ROOK, 0, 2);
move_new_ek!(c02_rook_ek_3, 0, ROOK, 0, 3);
move_new_ek!(c02_rook_ek_4, 0, ROOK, 0, 4);
move_new_ek!(c02_rook_ek_5, 0, ROOK, 0, 5);
move_new_ek!(c02_rook_ek_6, 0, ROOK, 0, 6);
move_new_ek!(c02_rook_ek_7, 0, ROOK, 0, 7);
move_new_ek!(c02_rook_ek_8, 0, ROOK, 0, 8);
move_new_ek!(c02_rook_ek_9, 0, ROOK, 0, 9);
move_new_ek!(c02_rook_ek_10, 0, ROOK, 0, 10);
move_new_ek!(c02_rook_ek_11, 0, ROOK, 0, 11);
move_new_ek!(c02_rook_ek_12, 0, ROOK, 0, 12);
move_new_ek!(c02_rook_ek_13, 0, ROOK, 0, 13);
move_new_ek!(c02_rook_ek_14, 0, ROOK, 0, 14);
move_new_ek!(c02_rook_ek_15, 0, ROOK, 0, 15);
move_new_ek!(c02_rook_ek_16, 0, ROOK, 0, 16);
move_new_ek!(c02_rook_ek_17, 0, ROOK, 0, 17);
move_new_ek!(c02_rook_ek_18, 0, ROOK, 0, 18);
move_new_ek!(c02_rook_ek_19, 0, ROOK, 0, 19);
move_new_ek!(c02_rook_ek_20, 0, ROOK, 0, 20);
move_new_ek!(c02_rook_ek_21, 0, ROOK, 0, 21);
move_new_ek!(c02_rook_ek_22, 0, ROOK, 0, 22);
move_new_ek!(c02_rook_ek_23, 0, ROOK, 0, 23);
move_new_ek!(c02_rook_ek_24, 0, ROOK, 0, 24);
move_new_ek!(c02_rook_ek_25, 0, ROOK, 0, 25);
move_new_ek!(c02_rook_ek_26, 0, ROOK, 0, 26);
move_new_ek!(c02_rook_ek_27, 0, ROOK, 0, 27);
move_new_ek!(c02_rook_ek_28, 0, ROOK, 0, 28);
move_new_ek!(c02_rook_ek_29, 0, ROOK, 0, 29);
move_new_ek!(c02_rook_ek_30, 0, ROOK, 0, 30);
move_new_ek!(c02_rook_ek_31, 0, ROOK, 0, 31);
move_new_ek!(c02_rook_ek_32, 0, ROOK, 0, 32);
move_new_ek!(c02_rook_ek_33, 0, ROOK, 0, 33);
move_new_ek!(c02_rook_ek_34, 0, ROOK, 0, 34);
move_new_ek!(c02_rook_ek_35, 0, ROOK, 0, 35);
move_new_ek!(c02_rook_ek_36, 0, ROOK, 0, 36);
move_new_ek!(c02_rook_ek_37, 0, ROOK, 0, 37);
move_new_ek!(c02_rook_ek_38, 0, ROOK, 0, 38);
move_new_ek!(c02_rook_ek_39, 0, ROOK, 0, 39);
move_new_ek!(c02_rook_ek_40, 0, ROOK, 0, 40);
move_new_ek!(c02_rook_ek_41, 0, ROOK, 0, 41);
move_new_ek!(c02_rook_ek_42, 0, ROOK, 0, 42);
move_new_ek!(c02_rook_ek_43, 0, ROOK, 0, 43);
move_new_ek!(c02_rook_ek_44, 0, ROOK, 0, 44);
move_new_ek!(c02_rook_ek_45, 0, ROOK, 0, 45);
move_new_ek!(c02_rook_ek_46, 0, ROOK, 0, 46);
move_new_ek!(c02_rook_ek_47, 0, ROOK, 0, 47);
move_new_ek!(c02_rook_ek_48, 0, ROOK, 0, 48);
move_new_ek!(c02_rook_ek_49, 0, ROOK, 0, 49);
move_new_ek!(c02_rook_ek_50, 0, ROOK, 0, 50);
move_new_ek!(c02_rook_ek_51, 0, ROOK, 0, 51);
move_new_ek!(c02_rook_ek_52, 0, ROOK, 0, 52);
move_new_ek!(c02_rook_ek_53, 0, ROOK, 0, 53);
move_new_ek!(c02_rook_ek_54, 0, ROOK, 0, 54);
move_new_ek!(c02_rook_ek_55, 0, ROOK, 0, 55);
move_new_ek!(c02_rook_ek_56, 0, ROOK, 0, 56);
move_new_ek!(c02_rook_ek_57, 0, ROOK, 0, 57);
move_new_ek!(c02_rook_ek_58, 0, ROOK, 0, 58);
move_new_ek!(c02_rook_ek_59, 0, ROOK, 0, 59);
move_new_ek!(c02_rook_ek_60, 0, ROOK, 0, 60);
move_new_ek!(c02_rook_ek_61, 0, ROOK, 0, 61);
move_new_ek!(c02_rook_ek_62, 0, ROOK, 0, 62);
move_new_ek!(c02_rook_ek_63, 0, ROOK, 0, 63);
move_new_ek!(c02_rook_ek_64, 0, ROOK, 1, 0);
move_new_ek!(c02_rook_ek_65, 0, ROOK, 1, 1);
move_new_ek!(c02_rook_ek_66, 0, ROOK, 1, 2);
move_new_ek!(c02_rook_ek_67, 0, ROOK, 1, 3);
move_new_ek!(c02_rook_ek_68, 0, ROOK, 1, 4);
move_new_ek!(c02_rook_ek_69, 0, ROOK, 1, 5);
move_new_ek!(c02_rook_ek_70, 0, ROOK, 1, 6);
move_new_ek!(c02_rook_ek_71, 0, ROOK, 1, 7);
move_new_ek!(c02_rook_ek_72, 0, ROOK, 1, 8);
move_new_ek!(c02_rook_ek_73, 0, ROOK, 1, 9);
move_new_ek!(c02_rook_ek_74, 0, ROOK, 1, 10);
move_new_ek!(c02_rook_ek_75, 0, ROOK, 1, 11);
move_new_ek!(c02_rook_ek_76, 0, ROOK, 1, 12);
move_new_ek!(c02_rook_ek_77, 0, ROOK, 1, 13);
move_new_ek!(c02_rook_ek_78, 0, ROOK, 1, 14);
move_new_ek!(c02_rook_ek_79, 0, ROOK, 1, 15);
move_new_ek!(c02_rook_ek_80, 0, ROOK, 1, 16);
move_new_ek!(c02_rook_ek_81, 0, ROOK, 1, 17);
move_new_ek!(c02_rook_ek_82, 0, ROOK, 1, 18);
move_new_ek!(c02_rook_ek_83, 0, ROOK, 1, 19);
move_new_ek!(c02_rook_ek_84, 0, ROOK, 1, 20);
move_new_ek!(c02_rook_ek_85, 0, ROOK, 1, 21);
move_new_ek!(c02_rook_ek_86, 0, ROOK, 1, 22);
move_new_ek!(c02_rook_ek_87, 0, ROOK, 1, 23);
move_new_ek!(c02_rook_ek_88, 0, ROOK, 1, 24);
move_new_ek!(c02_rook_ek_89, 0, ROOK, 1, 25);
move_new_ek!(c02_rook_ek_90, 0, ROOK, 1, 26);
move_new_ek!(c02_rook_ek_91, 0, ROOK, 1, 27);
move_new_ek!(c02_rook_ek_92, 0, ROOK, 1, 28);
move_new_ek!(c02_rook_ek_93, 0, ROOK, 1, 29);
move_new_ek!(c02_rook_ek_94, 0, ROOK, 1, 30);
move_new_ek!(c02_rook_ek_95, 0, ROOK, 1, 31);
move_new_ek!(c02_rook_ek_96, 0, ROOK, 1, 32);
move_new_ek!(c02_rook_ek_97, 0, ROOK, 1, 33);
move_new_ek!(c02_rook_ek_98, 0, ROOK, 1, 34);
move_new_ek!(c02_rook_ek_99, 0, ROOK, 1, 35);
move_new_ek!(c02_rook_ek_100, 0, ROOK, 1, 36);
move_new_ek!(c02_rook_ek_101, 0, ROOK, 1, 37);
move_new_ek!(c02_rook_ek_102, 0, ROOK, 1, 38);
move_new_ek!(c02_rook_ek_103, 0, ROOK, 1, 39);
move_new_ek!(c02_rook_ek_104, 0, ROOK, 1, 40);
move_new_ek!(c02_rook_ek_105, 0, ROOK, 1, 41);
move_new_ek!(c02_rook_ek_106, 0, ROOK, 1, 42);
move_new_ek!(c02_rook_ek_107, 0, ROOK, 1, 43);
move_new_ek!(c02_rook_ek_108, 0, ROOK, 1, 44);
move_new_ek!(c02_rook_ek_109, 0, ROOK, 1, 45);
move_new_ek!(c02_rook_ek_110, 0, ROOK, 1, 46);
move_new_ek!(c02_rook_ek_111, 0, ROOK, 1, 47);
move_new_ek!(c02_rook_ek_112, 0, ROOK, 1, 48);
move_new_ek!(c02_rook_ek_113, 0, ROOK, 1, 49);
move_new_ek!(c02_rook_ek_114, 0, ROOK, 1, 50);
move_new_ek!(c02_rook_ek_115, 0, ROOK, 1, 51);
move_new_ek!(c02_rook_ek_116, 0, ROOK, 1, 52);
move_new_ek!(c02_rook_ek_117, 0, ROOK, 1, 53);
move_new_ek!(c02_rook_ek_118, 0, ROOK, 1, 54);
move_new_ek!(c02_rook_ek_119, 0, ROOK, 1, 55);
move_new_ek!(c02_rook_ek_120, 0, ROOK, 1, 56);
move_new_ek!(c02_rook_ek_121, 0, ROOK, 1, 57);
move_new_ek!(c02_rook_ek_122, 0, ROOK, 1, 58);
move_new_ek!(c02_rook_ek_123, 0, ROOK, 1, 59);
move_new_ek!(c02_rook_ek_124, 0, ROOK, 1, 60);
move_new_ek!(c02_rook_ek_125, 0, ROOK, 1, 61);
move_new_ek!(c02_rook_ek_126, 0, ROOK, 1, 62);
move_new_ek!(c02_rook_ek_127, 0, ROOK, 1, 63);
// harness-family: c02_queen_ek_{0..127}
move_new_ek!(c02_queen_ek_0, 0, QUEEN, 0, 0);
move_new_ek!(c02_queen_ek_1, 0, QUEEN, 0, 1);
move_new_ek!(c02_queen_ek_2, 0, QUEEN, 0, 2);
move_new_ek!(c02_queen_ek_3, 0, QUEEN, 0, 3);
move_new_ek!(c02_queen_ek_4, 0, QUEEN, 0, 4);
move_new_ek!(c02_queen_ek_5, 0, QUEEN, 0, 5);
move_new_ek!(c02_queen_ek_6, 0, QUEEN, 0, 6);
move_new_ek!(c02_queen_ek_7, 0, QUEEN, 0, 7);
move_new_ek!(c02_queen_ek_8, 0, QUEEN, 0, 8);
move_new_ek!(c02_queen_ek_9, 0, QUEEN, 0, 9);
move_new_ek!(c02_queen_ek_10, 0, QUEEN, 0, 10);
move_new_ek!(c02_queen_ek_11, 0, QUEEN, 0, 11);
move_new_ek!(c02_queen_ek_12, 0, QUEEN, 0, 12);
move_new_ek!(c02_queen_ek_13, 0, QUEEN, 0, 13);
move_new_ek!(c02_queen_ek_14, 0, QUEEN, 0, 14);
move_new_ek!(c02_queen_ek_15, 0, QUEEN, 0, 15);
move_new_ek!(c02_queen_ek_16, 0, QUEEN, 0, 16);
move_new_ek!(c02_queen_ek_17, 0, QUEEN, 0, 17);
move_new_ek!(c02_queen_ek_18, 0, QUEEN, 0, 18);
move_new_ek!(c02_queen_ek_19, 0, QUEEN, 0, 19);
move_new_ek!(c02_queen_ek_20, 0, QUEEN, 0, 20);
move_new_ek!(c02_queen_ek_21, 0, QUEEN, 0, 21);
move_new_ek!(c02_queen_ek_22, 0, QUEEN, 0, 22);
move_new_ek!(c02_queen_ek_23, 0, QUEEN, 0, 23);
move_new_ek!(c02_queen_ek_24, 0, QUEEN, 0, 24);
move_new_ek!(c02_queen_ek_25, 0, QUEEN, 0, 25);
move_new_ek!(c02_queen_ek_26, 0, QUEEN, 0, 26);
move_new_ek!(c02_queen_ek_27, 0, QUEEN, 0, 27);
move_new_ek!(c02_queen_ek_28, 0, QUEEN, 0, 28);
move_new_ek!(c02_queen_ek_29, 0, QUEEN, 0, 29);
move_new_ek!(c02_queen_ek_30, 0, QUEEN, 0, 30);
move_new_ek!(c02_queen_ek_31, 0, QUEEN, 0, 31);
move_new_ek!(c02_queen_ek_32, 0, QUEEN, 0, 32);
move_new_ek!(c02_queen_ek_33, 0, QUEEN, 0, 33);
move_new_ek!(c02_queen_ek_34, 0, QUEEN, 0, 34);
move_new_ek!(c02_queen_ek_35, 0, QUEEN, 0, 35);
move_new_ek!(c02_queen_ek_36, 0, QUEEN, 0, 36);
move_new_ek!(c02_queen_ek_37, 0, QUEEN, 0, 37);
move_new_ek!(c02_queen_ek_38, 0, QUEEN, 0, 38);
move_new_ek!(c02_queen_ek_39, 0, QUEEN, 0, 39);
move_new_ek!(c02_queen_ek_40, 0, QUEEN, 0, 40);
move_new_ek!(c02_queen_ek_41, 0, QUEEN, 0, 41);
move_new_ek!(c02_queen_ek_42, 0, QUEEN, 0, 42);
move_new_ek!(c02_queen_ek_43, 0, QUEEN, 0, 43);
move_new_ek!(c02_queen_ek_44, 0, QUEEN, 0, 44);
move_new_ek!(c02_queen_ek_45, 0, QUEEN, 0, 45);
move_new_ek!(c02_queen_ek_46, 0, QUEEN, 0, 46);
move_new_ek!(c02_queen_ek_47, 0, QUEEN, 0, 47);
move_new_ek!(c02_queen_ek_48, 0, QUEEN, 0, 48);
move_new_ek!(c02_queen_ek_49, 0, QUEEN, 0, 49);
move_new_ek!(c02_queen_ek_50, 0, QUEEN, 0, 50);
move_new_ek!(c02_queen_ek_51, 0, QUEEN, 0, 51);
move_new_ek!(c02_queen_ek_52, 0, QUEEN, 0, 52);
move_new_ek!(c02_queen_ek_53, 0, QUEEN, 0, 53);
move_new_ek!(c02_queen_ek_54, 0, QUEEN, 0, 54);
move_new_ek!(c02_queen_ek_55, 0, QUEEN, 0, 55);
move_new_ek!(c02_queen_ek_56, 0, QUEEN, 0, 56);
move_new_ek!(c02_queen_ek_57, 0, QUEEN, 0, 57);
move_new_ek!(c02_queen_ek_58, 0, QUEEN, 0, 58);
move_new_ek!(c02_queen_ek_59, 0, QUEEN, 0, 59);
move_new_ek!(c02_queen_ek_60, 0, QUEEN, 0, 60);
move_new_ek!(c02_queen_ek_61, 0, QUEEN, 0, 61);
move_new_ek!(c02_queen_ek_62, 0, QUEEN, 0, 62);
move_new_ek!(c02_queen_ek_63, 0, QUEEN, 0, 63);
move_new_ek!(c02_queen_ek_64, 0, QUEEN, 1, 0);
move_new_ek!(c02_queen_ek_65, 0, QUEEN, 1, 1);
move_new_ek!(c02_queen_ek_66, 0, QUEEN, 1, 2);
move_new_ek!(c02_queen_ek_67, 0, QUEEN, 1, 3);
move_new_ek!(c02_queen_ek_68, 0, QUEEN, 1, 4);
move_new_ek!(c02_queen_ek_69, 0, QUEEN, 1, 5);
move_new_ek!(c02_queen_ek_70, 0, QUEEN, 1, 6);
move_new_ek!(c02_queen_ek_71, 0, QUEEN, 1, 7);
move_new_ek!(c02_queen_ek_72, 0, QUEEN, 1, 8);
move_new_ek!(c02_queen_ek_73, 0, QUEEN, 1, 9);
move_new_ek!(c02_queen_ek_74, 0, QUEEN, 1, 10);
move_new_ek!(c02_queen_ek_75, 0, QUEEN, 1, 11);
move_new_ek!(c02_queen_ek_76, 0, QUEEN, 1, 12);
move_new_ek!(c02_queen_ek_77, 0, QUEEN, 1, 13);
move_new_ek!(c02_queen_ek_78, 0, QUEEN, 1, 14);
move_new_ek!(c02_queen_ek_79, 0, QUEEN, 1, 15);
move_new_ek!(c02_queen_ek_80, 0, QUEEN, 1, 16);
move_new_ek!(c02_queen_ek_81, 0, QUEEN, 1, 17);
move_new_ek!(c02_queen_ek_82, 0, QUEEN, 1, 18);
move_new_ek!(c02_queen_ek_83, 0, QUEEN, 1, 19);
move_new_ek!(c02_queen_ek_84, 0, QUEEN, 1, 20);
move_new_ek!(c02_queen_ek_85, 0, QUEEN, 1, 21);
move_new_ek!(c02_queen_ek_86, 0, QUEEN, 1, 22);
move_new_ek!(c02_queen_ek_87, 0, QUEEN, 1, 23);
move_new_ek!(c02_queen_ek_88, 0, QUEEN, 1, 24);
move_new_ek!(c02_queen_ek_89, 0, QUEEN, 1, 25);
move_new_ek!(c02_queen_ek_90, 0, QUEEN, 1, 26);
move_new_ek!(c02_queen_ek_91, 0, QUEEN, 1, 27);
move_new_ek!(c02_queen_ek_92, 0, QUEEN, 1, 28);
move_new_ek!(c02_queen_ek_93, 0, QUEEN, 1, 29);
move_new_ek!(c02_queen_ek_94, 0, QUEEN, 1, 30);
move_new_ek!(c02_queen_ek_95, 0, QUEEN, 1, 31);
move_new_ek!(c02_queen_ek_96, 0, QUEEN, 1, 32);
move_new_ek!(c02_queen_ek_97, 0, QUEEN, 1, 33);
move_new_ek!(c02_queen_ek_98, 0, QUEEN, 1, 34);
move_new_ek!(c02_queen_ek_99, 0, QUEEN, 1, 35);
move_new_ek!(c02_queen_ek_100, 0, QUEEN, 1, 36);
move_new_ek!(c02_queen_ek_101, 0, QUEEN, 1, 37);
move_new_ek!(c02_queen_ek_102, 0, QUEEN, 1, 38);
move_new_ek!(c02_queen_ek_103, 0, QUEEN, 1, 39);
move_new_ek!(c02_queen_ek_104, 0, QUEEN, 1, 40);
move_new_ek!(c02_queen_ek_105, 0, QUEEN, 1, 41);
move_new_ek!(c02_queen_ek_106, 0, QUEEN, 1, 42);
move_new_ek!(c02_queen_ek_107, 0, QUEEN, 1, 43);
move_new_ek!(c02_queen_ek_108, 0, QUEEN, 1, 44);
move_new_ek!(c02_queen_ek_109, 0, QUEEN, 1, 45);
move_new_ek!(c02_queen_ek_110, 0, QUEEN, 1, 46);
move_new_ek!(c02_queen_ek_111, 0, QUEEN, 1, 47);
move_new_ek!(c02_queen_ek_112, 0, QUEEN, 1, 48);
move_new_ek!(c02_queen_ek_113, 0, QUEEN, 1, 49);
move_new_ek!(c02_queen_ek_114, 0, QUEEN, 1, 50);
move_new_ek!(c02_queen_ek_115, 0, QUEEN, 1, 51);
move_new_ek!(c02_queen_ek_116, 0, QUEEN, 1, 52);
move_new_ek!(c02_queen_ek_117, 0, QUEEN, 1, 53);
move_new_ek!(c02_queen_ek_118, 0, QUEEN, 1, 54);
move_new_ek!(c02_queen_ek_119, 0, QUEEN, 1, 55);
move_new_ek!(c02_queen_ek_120, 0, QUEEN, 1, 56);
move_new_ek!(c02_queen_ek_121, 0, QUEEN, 1, 57);
move_new_ek!(c02_queen_ek_122, 0, QUEEN, 1, 58);
move_new_ek!(c02_queen_ek_123, 0, QUEEN, 1, 59);
move_new_ek!(c02_queen_ek_124, 0, QUEEN, 1, 60);
move_new_ek!(c02_queen_ek_125, 0, QUEEN, 1, 61);
move_new_ek!(c02_queen_ek_126, 0, QUEEN, 1, 62);
move_new_ek!(c02_queen_ek_127, 0, QUEEN, 1, 63);
// harness-family: c02_king_ek_{0..127}
move_new_ek!(c02_king_ek_0, 0, KING, 0, 0);
move_new_ek!(c02_king_ek_1, 0, KING, 0, 1);
move_new_ek!(c02_king_ek_2, 0, KING, 0, 2);
move_new_ek!(c02_king_ek_3, 0, KING, 0, 3);
move_new_ek!(c02_king_ek_4, 0, KING, 0, 4);
move_new_ek!(c02_king_ek_5, 0, KING, 0, 5);
move_new_ek!(c02_king_ek_6, 0, KING, 0, 6);
move_new_ek!(c02_king_ek_7, 0, KING, 0, 7);
move_new_ek!(c02_king_ek_8, 0, KING, 0, 8);
move_new_ek!(c02_king_ek_9, 0, KING, 0, 9);
move_new_ek!(c02_king_ek_10, 0, KING, 0, 10);
move_new_ek!(c02_king_ek_11, 0, KING, 0, 11);
move_new_ek!(c02_king_ek_12, 0, KING, 0, 12);
move_new_ek!(c02_king_ek_13, 0, KING, 0, 13);
move_new_ek!(c02_king_ek_14, 0, KING, 0, 14);
move_new_ek!(c02_king_ek_15, 0, KING, 0, 15);
move_new_ek!(c02_king_ek_16, 0, KING, 0, 16);
move_new_ek!(c02_king_ek_17, 0, KING, 0, 17);
move_new_ek!(c02_king_ek_18, 0, KING, 0, 18);
move_new_ek!(c02_king_ek_19, 0, KING, 0, 19);
move_new_ek!(c02_king_ek_20, 0, KING, 0, 20);
move_new_ek!(c02_king_ek_21, 0, KING, 0, 21);
move_new_ek!(c02_king_ek_22, 0, KING, 0, 22);
move_new_ek!(c02_king_ek_23, 0, KING, 0, 23);
move_new_ek!(c02_king_ek_24, 0, KING, 0, 24);
move_new_ek!(c02_king_ek_25, 0, KING, 0, 25);
move_new_ek!(c02_king_ek_26, 0, KING, 0, 26);
move_new_ek!(c02_king_ek_27, 0, KING, 0, 27);
move_new_ek!(c02_king_ek_28, 0, KING, 0, 28);
move_new_ek!(c02_king_ek_29, 0, KING, 0, 29);
move_new_ek!(c02_king_ek_30, 0, KING, 0, 30);
move_new_ek!(c02_king_ek_31, 0, KING, 0, 31);
move_new_ek!(c02_king_ek_32, 0, KING, 0, 32);
move_new_ek!(c02_king_ek_33, 0, KING, 0, 33);
move_new_ek!(c02_king_ek_34, 0, KING, 0, 34);
move_new_ek!(c02_king_ek_35, 0, KING, 0, 35);
move_new_ek!(c02_king_ek_36, 0, KING, 0, 36);
move_new_ek!(c02_king_ek_37, 0, KING, 0, 37);
move_new_ek!(c02_king_ek_38, 0, KING, 0, 38);
move_new_ek!(c02_king_ek_39, 0, KING, 0, 39);
move_new_ek!(c02_king_ek_40, 0, KING, 0, 40);
move_new_ek!(c02_king_ek_41, 0, KING, 0, 41);
move_new_ek!(c02_king_ek_42, 0, KING, 0, 42);
move_new_ek!(c02_king_ek_43, 0, KING, 0, 43);
move_new_ek!(c02_king_ek_44, 0, KING, 0, 44);
move_new_ek!(c02_king_ek_45, 0, KING, 0, 45);
move_new_ek!(c02_king_ek_46, 0, KING, 0, 46);
move_new_ek!(c02_king_ek_47, 0, KING, 0, 47);
move_new_ek!(c02_king_ek_48, 0, KING, 0, 48);
move_new_ek!(c02_king_ek_49, 0, KING, 0, 49);
move_new_ek!(c02_king_ek_50, 0, KING, 0, 50);
move_new_ek!(c02_king_ek_51, 0, KING, 0, 51);
move_new_ek!(c02_king_ek_52, 0, KING, 0, 52);
move_new_ek!(c02_king_ek_53, 0, KING, 0, 53);
move_new_ek!(c02_king_ek_54, 0, KING, 0, 54);
move_new_ek!(c02_king_ek_55, 0, KING, 0, 55);
move_new_ek!(c02_king_ek_56, 0, KING, 0, 56);
move_new_ek!(c02_king_ek_57, 0, KING, 0, 57);
move_new_ek!(c02_king_ek_58, 0, KING, 0, 58);
move_new_ek!(c02_king_ek_59, 0, KING, 0, 59);
move_new_ek!(c02_king_ek_60, 0, KING, 0, 60);
move_new_ek!(c02_king_ek_61, 0, KING, 0, 61);
move_new_ek!(c02_king_ek_62, 0, KING, 0, 62);
move_new_ek!(c02_king_ek_63, 0, KING, 0, 63);
move_new_ek!(c02_king_ek_64, 0, KING, 1, 0);
move_new_ek!(c02_king_ek_65, 0, KING, 1, 1);
move_new_ek!(c02_king_ek_66, 0, KING, 1, 2);
move_new_ek!(c02_king_ek_67, 0, KING, 1, 3);
move_new_ek!(c02_king_ek_68, 0, KING, 1, 4);
move_new_ek!(c02_king_ek_69, 0, KING, 1, 5);
move_new_ek!(c02_king_ek_70, 0, KING, 1, 6);
move_new_ek!(c02_king_ek_71, 0, KING, 1, 7);
move_new_ek!(c02_king_ek_72, 0, KING, 1, 8);
move_new_ek!(c02_king_ek_73, 0, KING, 1, 9);
move_new_ek!(c02_king_ek_74, 0, KING, 1, 10);
move_new_ek!(c02_king_ek_75, 0, KING, 1, 11);
move_new_ek!(c02_king_ek_76, 0, KING, 1, 12);
move_new_ek!(c02_king_ek_77, 0, KING, 1, 13);
move_new_ek!(c02_king_ek_78, 0, KING, 1, 14);
move_new_ek!(c02_king_ek_79, 0, KING, 1, 15);
move_new_ek!(c02_king_ek_80, 0, KING, 1, 16);
move_new_ek!(c02_king_ek_81, 0, KING, 1, 17);
move_new_ek!(c02_king_ek_82, 0, KING, 1, 18);
move_new_ek!(c02_king_ek_83, 0, KING, 1, 19);
move_new_ek!(c02_king_ek_84, 0, KING, 1, 20);
move_new_ek!(c02_king_ek_85, 0, KING, 1, 21);
move_new_ek!(c02_king_ek_86, 0, KING, 1, 22);
move_new_ek!(c02_king_ek_87, 0, KING, 1, 23);
move_new_ek!(c02_king_ek_88, 0, KING, 1, 24);
move_new_ek!(c02_king_ek_89, 0, KING, 1, 25);
move_new_ek!(c02_king_ek_90, 0, KING, 1, 26);
move_new_ek!(c02_king_ek_91, 0, KING, 1, 27);
move_new_ek!(c02_king_ek_92, 0, KING, 1, 28);
move_new_ek!(c02_king_ek_93, 0, KING, 1, 29);
move_new_ek!(c02_king_ek_94, 0, KING, 1, 30);
move_new_ek!(c02_king_ek_95, 0, KING, 1, 31);
move_new_ek!(c02_king_ek_96, 0, KING, 1, 32);
move_new_ek!(c02_king_ek_97, 0, KING, 1, 33);
move_new_ek!(c02_king_ek_98, 0, KING, 1, 34);
move_new_ek!(c02_king_ek_99, 0, KING, 1, 35);
move_new_ek!(c02_king_ek_100, 0, KING, 1, 36);
move_new_ek!(c02_king_ek_101, 0, KING, 1, 37);
move_new_ek!(c02_king_ek_102, 0, KING, 1, 38);
move_new_ek!(c02_king_ek_103, 0, KING, 1, 39);
move_new_ek!(c02_king_ek_104, 0, KING, 1, 40);
move_new_ek!(c02_king_ek_105, 0, KING, 1, 41);
move_new_ek!(c02_king_ek_106, 0, KING, 1, 42);
move_new_ek!(c02_king_ek_107, 0, KING, 1, 43);
move_new_ek!(c02_king_ek_108, 0, KING, 1, 44);
move_new_ek!(c02_king_ek_109, 0, KING, 1, 45);
move_new_ek!(c02_king_ek_110, 0, KING, 1, 46);
move_new_ek!(c02_king_ek_111, 0, KING, 1, 47);
move_new_ek!(c02_king_ek_112, 0, KING, 1, 48);
move_new_ek!(c02_king_ek_113, 0, KING, 1, 49);
move_new_ek!(c02_king_ek_114, 0, KING, 1, 50);
move_new_ek!(c02_king_ek_115, 0, KING, 1, 51);
move_new_ek!(c02_king_ek_116, 0, KING, 1, 52);
move_new_ek!(c02_king_ek_117, 0, KING, 1, 53);
move_new_ek!(c02_king_ek_118, 0, KING, 1, 54);
move_new_ek!(c02_king_ek_119, 0, KING, 1, 55);
move_new_ek!(c02_king_ek_120, 0, KING, 1, 56);
move_new_ek!(c02_king_ek_121, 0, KING, 1, 57);
move_new_ek!(c02_king_ek_122, 0, KING, 1, 58);
move_new_ek!(c02_king_ek_123, 0, KING, 1, 59);
move_new_ek!(c02_king_ek_124, 0, KING, 1, 60);
move_new_ek!(c02_king_ek_125, 0, KING, 1, 61);
move_new_ek!(c02_king_ek_126, 0, KING, 1, 62);
move_new_ek!(c02_king_ek_127, 0, KING, 1, 63);
// harness-family: c03_inc_pawn_ek_{0..127}
move_new_ek!(c03_inc_pawn_ek_0, 1, PAWN, 0, 0);
move_new_ek!(c03_inc_pawn_ek_1, 1, PAWN, 0, 1);
move_new_ek!(c03_inc_pawn_ek_2, 1, PAWN, 0, 2);
move_new_ek!(c03_inc_pawn_ek_3, 1, PAWN, 0, 3);
move_new_ek!(c03_inc_pawn_ek_4, 1, PAWN, 0, 4);
move_new_ek!(c03_inc_pawn_ek_5, 1, PAWN, 0, 5);
move_new_ek!(c03_inc_pawn_ek_6, 1, PAWN, 0, 6);
move_new_ek!(c03_inc_pawn_ek_7, 1, PAWN, 0, 7);
move_new_ek!(c03_inc_pawn_ek_8, 1, PAWN, 0, 8);
move_new_ek!(c03_inc_pawn_ek_9, 1, PAWN, 0, 9);
move_new_ek!(c03_inc_pawn_ek_10, 1, PAWN, 0, 10);
move_new_ek!(c03_inc_pawn_ek_11, 1, PAWN, 0, 11);
move_new_ek!(c03_inc_pawn_ek_12, 1, PAWN, 0, 12);
move_new_ek!(c03_inc_pawn_ek_13, 1, PAWN, 0, 13);
move_new_ek!(c03_inc_pawn_ek_14, 1, PAWN, 0, 14);
move_new_ek!(c03_inc_pawn_ek_15, 1, PAWN, 0, 15);
move_new_ek!(c03_inc_pawn_ek_16, 1, PAWN, 0, 16);
move_new_ek!(c03_inc_pawn_ek_17, 1, PAWN, 0, 17);
move_new_ek!(c03_inc_pawn_ek_18, 1, PAWN, 0, 18);
move_new_ek!(c03_inc_pawn_ek_19, 1, PAWN, 0, 19);
move_new_ek!(c03_inc_pawn_ek_20, 1, PAWN, 0, 20);
move_new_ek!(c03_inc_pawn_ek_21, 1, PAWN, 0, 21);
move_new_ek!(c03_inc_pawn_ek_22, 1, PAWN, 0, 22);
move_new_ek!(c03_inc_pawn_ek_23, 1, PAWN, 0, 23);
move_new_ek!(c03_inc_pawn_ek_24, 1, PAWN, 0, 24);
move_new_ek!(c03_inc_pawn_ek_25, 1, PAWN, 0, 25);
move_new_ek!(c03_inc_pawn_ek_26, 1, PAWN, 0, 26);
move_new_ek!(c03_inc_pawn_ek_27, 1, PAWN, 0, 27);
move_new_ek!(c03_inc_pawn_ek_28, 1, PAWN, 0, 28);
move_new_ek!(c03_inc_pawn_ek_29, 1, PAWN, 0, 29);
move_new_ek!(c03_inc_pawn_ek_30, 1, PAWN, 0, 30);
move_new_ek!(c03_inc_pawn_ek_31, 1, PAWN, 0, 31);
move_new_ek!(c03_inc_pawn_ek_32, 1, PAWN, 0, 32);
move_new_ek!(c03_inc_pawn_ek_33, 1, PAWN, 0, 33);
move_new_ek!(c03_inc_pawn_ek_34, 1, PAWN, 0, 34);
move_new_ek!(c03_inc_pawn_ek_35, 1, PAWN, 0, 35);
move_new_ek!(c03_inc_pawn_ek_36, 1, PAWN, 0, 36);
move_new_ek!(c03_inc_pawn_ek_37, 1, PAWN, 0, 37);
move_new_ek!(c03_inc_pawn_ek_38, 1, PAWN, 0, 38);
move_new_ek!(c03_inc_pawn_ek_39, 1, PAWN, 0, 39);
move_new_ek!(c03_inc_pawn_ek_40, 1, PAWN, 0, 40);
move_new_ek!(c03_inc_pawn_ek_41, 1, PAWN, 0, 41);
move_new_ek!(c03_inc_pawn_ek_42, 1, PAWN, 0, 42);
move_new_ek!(c03_inc_pawn_ek_43, 1, PAWN, 0, 43);
move_new_ek!(c03_inc_pawn_ek_44, 1, PAWN, 0, 44);
move_new_ek!(c03_inc_pawn_ek_45, 1, PAWN, 0, 45);
move_new_ek!(c03_inc_pawn_ek_46, 1, PAWN, 0, 46);
move_new_ek!(c03_inc_pawn_ek_47, 1, PAWN, 0, 47);
move_new_ek!(c03_inc_pawn_ek_48, 1, PAWN, 0, 48);
move_new_ek!(c03_inc_pawn_ek_49, 1, PAWN, 0, 49);
move_new_ek!(c03_inc_pawn_ek_50, 1, PAWN, 0, 50);
move_new_ek!(c03_inc_pawn_ek_51, 1, PAWN, 0, 51);
move_new_ek!(c03_inc_pawn_ek_52, 1, PAWN, 0, 52);
move_new_ek!(c03_inc_pawn_ek_53, 1, PAWN, 0, 53);
move_new_ek!(c03_inc_pawn_ek_54, 1, PAWN, 0, 54);
move_new_ek!(c03_inc_pawn_ek_55, 1, PAWN, 0, 55);
move_new_ek!(c03_inc_pawn_ek_56, 1, PAWN, 0, 56);
move_new_ek!(c03_inc_pawn_ek_57, 1, PAWN, 0, 57);
move_new_ek!(c03_inc_pawn_ek_58, 1, PAWN, 0, 58);
move_new_ek!(c03_inc_pawn_ek_59, 1, PAWN, 0, 59);
move_new_ek!(c03_inc_pawn_ek_60, 1, PAWN, 0, 60);
move_new_ek!(c03_inc_pawn_ek_61, 1, PAWN, 0, 61);
move_new_ek!(c03_inc_pawn_ek_62, 1, PAWN, 0, 62);
move_new_ek!(c03_inc_pawn_ek_63, 1, PAWN, 0, 63);
move_new_ek!(c03_inc_pawn_ek_64, 1, PAWN, 1, 0);
move_new_ek!(c03_inc_pawn_ek_65, 1, PAWN, 1, 1);
move_new_ek!(c03_inc_pawn_ek_66, 1, PAWN, 1, 2);
move_new_ek!(c03_inc_pawn_ek_67, 1, PAWN, 1, 3);
move_new_ek!(c03_inc_pawn_ek_68, 1, PAWN, 1, 4);
move_new_ek!(c03_inc_pawn_ek_69, 1, PAWN, 1, 5);
move_new_ek!(c03_inc_pawn_ek_70, 1, PAWN, 1, 6);
move_new_ek!(c03_inc_pawn_ek_71, 1, PAWN, 1, 7);
move_new_ek!(c03_inc_pawn_ek_72, 1, PAWN, 1, 8);
move_new_ek!(c03_inc_pawn_ek_73, 1, PAWN, 1, 9);
move_new_ek!(c03_inc_pawn_ek_74, 1, PAWN, 1, 10);
move_new_ek!(c03_inc_pawn_ek_75, 1, PAWN, 1, 11);
move_new_ek!(c03_inc_pawn_ek_76, 1, PAWN, 1, 12);
move_new_ek!(c03_inc_pawn_ek_77, 1, PAWN, 1, 13);
move_new_ek!(c03_inc_pawn_ek_78, 1, PAWN, 1, 14);
move_new_ek!(c03_inc_pawn_ek_79, 1, PAWN, 1, 15);
move_new_ek!(c03_inc_pawn_ek_80, 1, PAWN, 1, 16);
move_new_ek!(c03_inc_pawn_ek_81, 1, PAWN, 1, 17);
move_new_ek!(c03_inc_pawn_ek_82, 1, PAWN, 1, 18);
move_new_ek!(c03_inc_pawn_ek_83, 1, PAWN, 1, 19);
move_new_ek!(c03_inc_pawn_ek_84, 1, PAWN, 1, 20);
move_new_ek!(c03_inc_pawn_ek_85, 1, PAWN, 1, 21);
move_new_ek!(c03_inc_pawn_ek_86, 1, PAWN, 1, 22);
move_new_ek!(c03_inc_pawn_ek_87, 1, PAWN, 1, 23);
move_new_ek!(c03_inc_pawn_ek_88, 1, PAWN, 1, 24);
move_new_ek!(c03_inc_pawn_ek_89, 1, PAWN, 1, 25);
move_new_ek!(c03_inc_pawn_ek_90, 1, PAWN, 1, 26);
move_new_ek!(c03_inc_pawn_ek_91, 1, PAWN, 1, 27);
move_new_ek!(c03_inc_pawn_ek_92, 1, PAWN, 1, 28);
move_new_ek!(c03_inc_pawn_ek_93, 1, PAWN, 1, 29);
move_new_ek!(c03_inc_pawn_ek_94, 1, PAWN, 1, 30);
move_new_ek!(c03_inc_pawn_ek_95, 1, PAWN, 1, 31);
move_new_ek!(c03_inc_pawn_ek_96, 1, PAWN, 1, 32);
move_new_ek!(c03_inc_pawn_ek_97, 1, PAWN, 1, 33);
move_new_ek!(c03_inc_pawn_ek_98, 1, PAWN, 1, 34);
move_new_ek!(c03_inc_pawn_ek_99, 1, PAWN, 1, 35);
move_new_ek!(c03_inc_pawn_ek_100, 1, PAWN, 1, 36);
move_new_ek!(c03_inc_pawn_ek_101, 1, PAWN, 1, 37);
move_new_ek!(c03_inc_pawn_ek_102, 1, PAWN, 1, 38);
move_new_ek!(c03_inc_pawn_ek_103, 1, PAWN, 1, 39);
move_new_ek!(c03_inc_pawn_ek_104, 1, PAWN, 1, 40);
move_new_ek!(c03_inc_pawn_ek_105, 1, PAWN, 1, 41);
move_new_ek!(c03_inc_pawn_ek_106, 1, PAWN, 1, 42);
move_new_ek!(c03_inc_pawn_ek_107, 1, PAWN, 1, 43);
move_new_ek!(c03_inc_pawn_ek_108, 1, PAWN, 1, 44);
move_new_ek!(c03_inc_pawn_ek_109, 1, PAWN, 1, 45);
move_new_ek!(c03_inc_pawn_ek_110, 1, PAWN, 1, 46);
move_new_ek!(c03_inc_pawn_ek_111, 1, PAWN, 1, 47);
move_new_ek!(c03_inc_pawn_ek_112, 1, PAWN, 1, 48);
move_new_ek!(c03_inc_pawn_ek_113, 1, PAWN, 1, 49);
move_new_ek!(c03_inc_pawn_ek_114, 1, PAWN, 1, 50);
move_new_ek!(c03_inc_pawn_ek_115, 1, PAWN, 1, 51);
move_new_ek!(c03_inc_pawn_ek_116, 1, PAWN, 1, 52);
move_new_ek!(c03_inc_pawn_ek_117, 1, PAWN, 1, 53);
move_new_ek!(c03_inc_pawn_ek_118, 1, PAWN, 1, 54);
move_new_ek!(c03_inc_pawn_ek_119, 1, PAWN, 1, 55);
move_new_ek!(c03_inc_pawn_ek_120, 1, PAWN, 1, 56);
move_new_ek!(c03_inc_pawn_ek_121, 1, PAWN, 1, 57);
move_new_ek!(c03_inc_pawn_ek_122, 1, PAWN, 1, 58);
move_new_ek!(c03_inc_pawn_ek_123, 1, PAWN, 1, 59);
move_new_ek!(c03_inc_pawn_ek_124, 1, PAWN, 1, 60);
move_new_ek!(c03_inc_pawn_ek_125, 1, PAWN, 1, 61);
move_new_ek!(c03_inc_pawn_ek_126, 1, PAWN, 1, 62);
move_new_ek!(c03_inc_pawn_ek_127, 1, PAWN, 1, 63);
// harness-family: c03_inc_knight_ek_{0..127}
move_new_ek!(c03_inc_knight_ek_0, 1, KNIGHT, 0, 0);
move_new_ek!(c03_inc_knight_ek_1, 1, KNIGHT, 0, 1);
move_new_ek!(c03_inc_knight_ek_2, 1, KNIGHT, 0, 2);
move_new_ek!(c03_inc_knight_ek_3, 1, KNIGHT, 0, 3);
move_new_ek!(c03_inc_knight_ek_4, 1, KNIGHT, 0, 4);
move_new_ek!(c03_inc_knight_ek_5, 1, KNIGHT, 0, 5);
move_new_ek!(c03_inc_knight_ek_6, 1, KNIGHT, 0, 6);
move_new_ek!(c03_inc_knight_ek_7, 1, KNIGHT, 0, 7);
move_new_ek!(c03_inc_knight_ek_8, 1, KNIGHT, 0, 8);
move_new_ek!(c03_inc_knight_ek_9, 1, KNIGHT, 0, 9);
move_new_ek!(c03_inc_knight_ek_10, 1, KNIGHT, 0, 10);
move_new_ek!(c03_inc_knight_ek_11, 1, KNIGHT, 0, 11);
move_new_ek!(c03_inc_knight_ek_12, 1, KNIGHT, 0, 12);
move_new_ek!(c03_inc_knight_ek_13, 1, KNIGHT, 0, 13);
move_new_ek!(c03_inc_knight_ek_14, 1, KNIGHT, 0, 14);
move_new_ek!(c03_inc_knight_ek_15, 1, KNIGHT, 0, 15);
move_new_ek!(c03_inc_knight_ek_16, 1, KNIGHT, 0, 16);
move_new_ek!(c03_inc_knight_ek_17, 1, KNIGHT, 0, 17);
move_new_ek!(c03_inc_knight_ek_18, 1, KNIGHT, 0, 18);
move_new_ek!(c03_inc_knight_ek_19, 1, KNIGHT, 0, 19);
move_new_ek!(c03_inc_knight_ek_20, 1, KNIGHT, 0, 20);
move_new_ek!(c03_inc_knight_ek_21, 1, KNIGHT, 0, 21);
move_new_ek!(c03_inc_knight_ek_22, 1, KNIGHT, 0, 22);
move_new_ek!(c03_inc_knight_ek_23, 1, KNIGHT, 0, 23);
move_new_ek!(c03_inc_knight_ek_24, 1, KNIGHT, 0, 24);
move_new_ek!(c03_inc_knight_ek_25, 1, KNIGHT, 0, 25);
move_new_ek!(c03_inc_knight_ek_26, 1, KNIGHT, 0, 26);
move_new_ek!(c03_inc_knight_ek_27, 1, KNIGHT, 0, 27);
move_new_ek!(c03_inc_knight_ek_28, 1, KNIGHT, 0, 28);
move_new_ek!(c03_inc_knight_ek_29, 1, KNIGHT, 0, 29);
move_new_ek!(c03_inc_knight_ek_30, 1, KNIGHT, 0, 30);
move_new_ek!(c03_inc_knight_ek_31, 1, KNIGHT, 0, 31);
move_new_ek!(c03_inc_knight_ek_32, 1, KNIGHT, 0, 32);
move_new_ek!(c03_inc_knight_ek_33, 1, KNIGHT, 0, 33);
move_new_ek!(c03_inc_knight_ek_34, 1, KNIGHT, 0, 34);
move_new_ek!(c03_inc_knight_ek_35, 1, KNIGHT, 0, 35);
move_new_ek!(c03_inc_knight_ek_36, 1, KNIGHT, 0, 36);
move_new_ek!(c03_inc_knight_ek_37, 1, KNIGHT, 0, 37);
move_new_ek!(c03_inc_knight_ek_38, 1, KNIGHT, 0, 38);
move_new_ek!(c03_inc_knight_ek_39, 1, KNIGHT, 0, 39);
move_new_ek!(c03_inc_knight_ek_40, 1, KNIGHT, 0, 40);
move_new_ek!(c03_inc_knight_ek_41, 1, KNIGHT, 0, 41);
move_new_ek!(c03_inc_knight_ek_42, 1, KNIGHT, 0, 42);
move_new_ek!(c03_inc_knight_ek_43, 1, KNIGHT, 0, 43);
move_new_ek!(c03_inc_knight_ek_44, 1, KNIGHT, 0, 44);
move_new_ek!(c03_inc_knight_ek_45, 1, KNIGHT, 0, 45);
move_new_ek!(c03_inc_knight_ek_46, 1, KNIGHT, 0, 46);
move_new_ek!(c03_inc_knight_ek_47, 1, KNIGHT, 0, 47);
move_new_ek!(c03_inc_knight_ek_48, 1, KNIGHT, 0, 48);
move_new_ek!(c03_inc_knight_ek_49, 1, KNIGHT, 0, 49);
move_new_ek!(c03_inc_knight_ek_50, 1, KNIGHT, 0, 50);
move_new_ek!(c03_inc_knight_ek_51, 1, KNIGHT, 0, 51);
move_new_ek!(c03_inc_knight_ek_52, 1, KNIGHT, 0, 52);
move_new_ek!(c03_inc_knight_ek_53, 1, KNIGHT, 0, 53);
move_new_ek!(c03_inc_knight_ek_54, 1, KNIGHT, 0, 54);
move_new_ek!(c03_inc_knight_ek_55, 1, KNIGHT, 0, 55);
move_new_ek!(c03_inc_knight_ek_56, 1, KNIGHT, 0, 56);
move_new_ek!(c03_inc_knight_ek_57, 1, KNIGHT, 0, 57);
move_new_ek!(c03_inc_knight_ek_58, 1, KNIGHT, 0, 58);
move_new_ek!(c03_inc_knight_ek_59, 1, KNIGHT, 0, 59);
move_new_ek!(c03_inc_knight_ek_60, 1, KNIGHT, 0, 60);
move_new_ek!(c03_inc_knight_ek_61, 1, KNIGHT, 0, 61);
move_new_ek!(c03_inc_knight_ek_62, 1, KNIGHT, 0, 62);
move_new_ek!(c03_inc_knight_ek_63, 1, KNIGHT, 0, 63);
move_new_ek!(c03_inc_knight_ek_64, 1, KNIGHT, 1, 0);
move_new_ek!(c03_inc_knight_ek_65, 1, KNIGHT, 1, 1);
move_new_ek!(c03_inc_knight_ek_66, 1, KNIGHT, 1, 2);
move_new_ek!(c03_inc_knight_ek_67, 1, KNIGHT, 1, 3);
move_new_ek!(c03_inc_knight_ek_68, 1, KNIGHT, 1, 4);
move_new_ek!(c03_inc_knight_ek_69, 1, KNIGHT, 1, 5);
move_new_ek!(c03_inc_knight_ek_70, 1, KNIGHT, 1, 6);
move_new_ek!(c03_inc_knight_ek_71, 1, KNIGHT, 1, 7);
move_new_ek!(c03_inc_knight_ek_72, 1, KNIGHT, 1, 8);
move_new_ek!(c03_inc_knight_ek_73, 1, KNIGHT, 1, 9);
move_new_ek!(c03_inc_knight_ek_74, 1, KNIGHT, 1, 10);
move_new_ek!(c03_inc_knight_ek_75, 1, KNIGHT, 1, 11);
move_new_ek!(c03_inc_knight_ek_76, 1, KNIGHT, 1, 12);
move_new_ek!(c03_inc_knight_ek_77, 1, KNIGHT, 1, 13);
move_new_ek!(c03_inc_knight_ek_78, 1, KNIGHT, 1, 14);
move_new_ek!(c03_inc_knight_ek_79, 1, KNIGHT, 1, 15);
move_new_ek!(c03_inc_knight_ek_80, 1, KNIGHT, 1, 16);
move_new_ek!(c03_inc_knight_ek_81, 1, KNIGHT, 1, 17);
move_new_ek!(c03_inc_knight_ek_82, 1, KNIGHT, 1, 18);
move_new_ek!(c03_inc_knight_ek_83, 1, KNIGHT, 1, 19);
move_new_ek!(c03_inc_knight_ek_84, 1, KNIGHT, 1, 20);
move_new_ek!(c03_inc_knight_ek_85, 1, KNIGHT, 1, 21);
move_new_ek!(c03_inc_knight_ek_86, 1, KNIGHT, 1, 22);
move_new_ek!(c03_inc_knight_ek_87, 1, KNIGHT, 1, 23);
move_new_ek!(c03_inc_knight_ek_88, 1, KNIGHT, 1, 24);
move_new_ek!(c03_inc_knight_ek_89, 1, KNIGHT, 1, 25);
move_new_ek!(c03_inc_knight_ek_90, 1, KNIGHT, 1, 26);
move_new_ek!(c03_inc_knight_ek_91, 1, KNIGHT, 1, 27);
move_new_ek!(c03_inc_knight_ek_92, 1, KNIGHT, 1, 28);
move_new_ek!(c03_inc_knight_ek_93, 1, KNIGHT, 1, 29);
move_new_ek!(c03_inc_knight_ek_94, 1, KNIGHT, 1, 30);
move_new_ek!(c03_inc_knight_ek_95, 1, KNIGHT, 1, 31);
move_new_ek!(c03_inc_knight_ek_96, 1, KNIGHT, 1, 32);
move_new_ek!(c03_inc_knight_ek_97, 1, KNIGHT, 1, 33);
move_new_ek!(c03_inc_knight_ek_98, 1, KNIGHT, 1, 34);
move_new_ek!(c03_inc_knight_ek_99, 1, KNIGHT, 1, 35);
move_new_ek!(c03_inc_knight_ek_100, 1, KNIGHT, 1, 36);
move_new_ek!(c03_inc_knight_ek_101, 1, KNIGHT, 1, 37);
move_new_ek!(c03_inc_knight_ek_102, 1, KNIGHT, 1, 38);
move_new_ek!(c03_inc_knight_ek_103, 1, KNIGHT, 1, 39);
move_new_ek!(c03_inc_knight_ek_104, 1, KNIGHT, 1, 40);
move_new_ek!(c03_inc_knight_ek_105, 1, KNIGHT, 1, 41);
move_new_ek!(c03_inc_knight_ek_106, 1, KNIGHT, 1, 42);
move_new_ek!(c03_inc_knight_ek_107, 1, KNIGHT, 1, 43);
move_new_ek!(c03_inc_knight_ek_108, 1, KNIGHT, 1, 44);
move_new_ek!(c03_inc_knight_ek_109, 1, KNIGHT, 1, 45);
move_new_ek!(c03_inc_knight_ek_110, 1, KNIGHT, 1, 46);
move_new_ek!(c03_inc_knight_ek_111, 1, KNIGHT, 1, 47);
move_new_ek!(c03_inc_knight_ek_112, 1, KNIGHT, 1, 48);
move_new_ek!(c03_inc_knight_ek_113, 1, KNIGHT, 1, 49);
move_new_ek!(c03_inc_knight_ek_114, 1, KNIGHT, 1, 50);
move_new_ek!(c03_inc_knight_ek_115, 1, KNIGHT, 1, 51);
move_new_ek!(c03_inc_knight_ek_116, 1, KNIGHT, 1, 52);
move_new_ek!(c03_inc_knight_ek_117, 1, KNIGHT, 1, 53);
move_new_ek!(c03_inc_knight_ek_118, 1, KNIGHT, 1, 54);
move_new_ek!(c03_inc_knight_ek_119, 1, KNIGHT, 1, 55);
move_new_ek!(c03_inc_knight_ek_120, 1, KNIGHT, 1, 56);
move_new_ek!(c03_inc_knight_ek_121, 1, KNIGHT, 1, 57);
move_new_ek!(c03_inc_knight_ek_122, 1, KNIGHT, 1, 58);
move_new_ek!(c03_inc_knight_ek_123, 1, KNIGHT, 1, 59);
move_new_ek!(c03_inc_knight_ek_124, 1, KNIGHT, 1, 60);
move_new_ek!(c03_inc_knight_ek_125, 1, KNIGHT, 1, 61);
move_new_ek!(c03_inc_knight_ek_126, 1, KNIGHT, 1, 62);
move_new_ek!(c03_inc_knight_ek_127, 1, KNIGHT, 1, 63);
// harness-family: c03_inc_bishop_ek_{0..127}
move_new_ek!(c03_inc_bishop_ek_0, 1, BISHOP, 0, 0);
move_new_ek!(c03_inc_bishop_ek_1, 1, BISHOP, 0, 1);
move_new_ek!(c03_inc_bishop_ek_2, 1, BISHOP, 0, 2);
move_new_ek!(c03_inc_bishop_ek_3, 1, BISHOP, 0, 3);
move_new_ek!(c03_inc_bishop_ek_4, 1, BISHOP, 0, 4);
move_new_ek!(c03_inc_bishop_ek_5, 1, BISHOP, 0, 5);
move_new_ek!(c03_inc_bishop_ek_6, 1, BISHOP, 0, 6);
move_new_ek!(c03_inc_bishop_ek_7, 1, BISHOP, 0, 7);
move_new_ek!(c03_inc_bishop_ek_8, 1, BISHOP, 0, 8);
move_new_ek!(c03_inc_bishop_ek_9, 1, BISHOP, 0, 9);
move_new_ek!(c03_inc_bishop_ek_10, 1, BISHOP, 0, 10);
move_new_ek!(c03_inc_bishop_ek_11, 1, BISHOP, 0, 11);
move_new_ek!(c03_inc_bishop_ek_12, 1, BISHOP, 0, 12);
move_new_ek!(c03_inc_bishop_ek_13, 1, BISHOP, 0, 13);
move_new_ek!(c03_inc_bishop_ek_14, 1, BISHOP, 0, 14);
move_new_ek!(c03_inc_bishop_ek_15, 1, BISHOP, 0, 15);
move_new_ek!(c03_inc_bishop_ek_16, 1, BISHOP, 0, 16);
move_new_ek!(c03_inc_bishop_ek_17, 1, BISHOP, 0, 17);
move_new_ek!(c03_inc_bishop_ek_18, 1, BISHOP, 0, 18);
move_new_ek!(c03_inc_bishop_ek_19, 1, BISHOP, 0, 19);
move_new_ek!(c03_inc_bishop_ek_20, 1, BISHOP, 0, 20);
move_new_ek!(c03_inc_bishop_ek_21, 1, BISHOP, 0, 21);
move_new_ek!(c03_inc_bishop_ek_22, 1, BISHOP, 0, 22);
move_new_ek!(c03_inc_bishop_ek_23, 1, BISHOP, 0, 23);
move_new_ek!(c03_inc_bishop_ek_24, 1, BISHOP, 0, 24);
move_new_ek!(c03_inc_bishop_ek_25, 1, BISHOP, 0, 25);
move_new_ek!(c03_inc_bishop_ek_26, 1, BISHOP, 0, 26);
move_new_ek!(c03_inc_bishop_ek_27, 1, BISHOP, 0, 27);
move_new_ek!(c03_inc_bishop_ek_28, 1, BISHOP, 0, 28);
move_new_ek!(c03_inc_bishop_ek_29, 1, BISHOP, 0, 29);
move_new_ek!(c03_inc_bishop_ek_30, 1, BISHOP, 0, 30);
move_new_ek!(c03_inc_bishop_ek_31, 1, BISHOP, 0, 31);
move_new_ek!(c03_inc_bishop_ek_32, 1, BISHOP, 0, 32);
move_new_ek!(c03_inc_bishop_ek_33, 1, BISHOP, 0, 33);
move_new_ek!(c03_inc_bishop_ek_34, 1, BISHOP, 0, 34);
move_new_ek!(c03_inc_bishop_ek_35, 1, BISHOP, 0, 35);
move_new_ek!(c03_inc_bishop_ek_36, 1, BISHOP, 0, 36);
move_new_ek!(c03_inc_bishop_ek_37, 1, BISHOP, 0, 37);
move_new_ek!(c03_inc_bishop_ek_38, 1, BISHOP, 0, 38);
move_new_ek!(c03_inc_bishop_ek_39, 1, BISHOP, 0, 39);
move_new_ek!(c03_inc_bishop_ek_40, 1, BISHOP, 0, 40);
move_new_ek!(c03_inc_bishop_ek_41, 1, BISHOP, 0, 41);
move_new_ek!(c03_inc_bishop_ek_42, 1, BISHOP, 0, 42);
move_new_ek!(c03_inc_bishop_ek_43, 1, BISHOP, 0, 43);
move_new_ek!(c03_inc_bishop_ek_44, 1, BISHOP, 0, 44);
move_new_ek!(c03_inc_bishop_ek_45, 1, BISHOP, 0, 45);
move_new_ek!(c03_inc_bishop_ek_46, 1, BISHOP, 0, 46);
move_new_ek!(c03_inc_bishop_ek_47, 1, BISHOP, 0, 47);
move_new_ek!(c03_inc_bishop_ek_48, 1, BISHOP, 0, 48);
move_new_ek!(c03_inc_bishop_ek_49, 1, BISHOP, 0, 49);
move_new_ek!(c03_inc_bishop_ek_50, 1, BISHOP, 0, 50);
move_new_ek!(c03_inc_bishop_ek_51, 1, BISHOP, 0, 51);
move_new_ek!(c03_inc_bishop_ek_52, 1, BISHOP, 0, 52);
move_new_ek!(c03_inc_bishop_ek_53, 1, BISHOP, 0, 53);
move_new_ek!(c03_inc_bishop_ek_54, 1, BISHOP, 0, 54);
move_new_ek!(c03_inc_bishop_ek_55, 1, BISHOP, 0, 55);
move_new_ek!(c03_inc_bishop_ek_56, 1, BISHOP, 0, 56);
move_new_ek!(c03_inc_bishop_ek_57, 1, BISHOP, 0, 57);
move_new_ek!(c03_inc_bishop_ek_58, 1, BISHOP, 0, 58);
move_new_ek!(c03_inc_bishop_ek_59, 1, BISHOP, 0, 59);
move_new_ek!(c03_inc_bishop_ek_60, 1, BISHOP, 0, 60);
move_new_ek!(c03_inc_bishop_ek_61, 1, BISHOP, 0, 61);
move_new_ek!(c03_inc_bishop_ek_62, 1, BISHOP, 0, 62);
move_new_ek!(c03_inc_bishop_ek_63, 1, BISHOP, 0, 63);
move_new_ek!(c03_inc_bishop_ek_64, 1, BISHOP, 1, 0);
move_new_ek!(c03_inc_bishop_ek_65, 1, BISHOP, 1, 1);
move_new_ek!(c03_inc_bishop_ek_66, 1, BISHOP, 1, 2);
move_new_ek!(c03_inc_bishop_ek_67, 1, BISHOP, 1, 3);
move_new_ek!(c03_inc_bishop_ek_68, 1, BISHOP, 1, 4);
move_new_ek!(c03_inc_bishop_ek_69, 1, BISHOP, 1, 5);
move_new_ek!(c03_inc_bishop_ek_70, 1, BISHOP, 1, 6);
move_new_ek!(c03_inc_bishop_ek_71, 1, BISHOP, 1, 7);
move_new_ek!(c03_inc_bishop_ek_72, 1, BISHOP, 1, 8);
move_new_ek!(c03_inc_bishop_ek_73, 1, BISHOP, 1, 9);
move_new_ek!(c03_inc_bishop_ek_74, 1, BISHOP, 1, 10);
move_new_ek!(c03_inc_bishop_ek_75, 1, BISHOP, 1, 11);
move_new_ek!(c03_inc_bishop_ek_76, 1, BISHOP, 1, 12);
move_new_ek!(c03_inc_bishop_ek_77, 1, BISHOP, 1, 13);
move_new_ek!(c03_inc_bishop_ek_78, 1, BISHOP, 1, 14);
move_new_ek!(c03_inc_bishop_ek_79, 1, BISHOP, 1, 15);
move_new_ek!(c03_inc_bishop_ek_80, 1, BISHOP, 1, 16);
move_new_ek!(c03_inc_bishop_ek_81, 1, BISHOP, 1, 17);
move_new_ek!(c03_inc_bishop_ek_82, 1, BISHOP, 1, 18);
move_new_ek!(c03_inc_bishop_ek_83, 1, BISHOP, 1, 19);
move_new_ek!(c03_inc_bishop_ek_84, 1, BISHOP, 1, 20);
move_new_ek!(c03_inc_bishop_ek_85, 1, BISHOP, 1, 21);
move_new_ek!(c03_inc_bishop_ek_86, 1, BISHOP, 1, 22);
move_new_ek!(c03_inc_bishop_ek_87, 1, BISHOP, 1, 23);
move_new_ek!(c03_inc_bishop_ek_88, 1, BISHOP, 1, 24);
move_new_ek!(c03_inc_bishop_ek_89, 1, BISHOP, 1, 25);
move_new_ek!(c03_inc_bishop_ek_90, 1, BISHOP, 1, 26);
move_new_ek!(c03_inc_bishop_ek_91, 1, BISHOP, 1, 27);
move_new_ek!(c03_inc_bishop_ek_92, 1, BISHOP, 1, 28);
move_new_ek!(c03_inc_bishop_ek_93, 1, BISHOP, 1, 29);
move_new_ek!(c03_inc_bishop_ek_94, 1, BISHOP, 1, 30);
move_new_ek!(c03_inc_bishop_ek_95, 1, BISHOP, 1, 31);
move_new_ek!(c03_inc_bishop_ek_96, 1, BISHOP, 1, 32);
move_new_ek!(c03_inc_bishop_ek_97, 1, BISHOP, 1, 33);
move_new_ek!(c03_inc_bishop_ek_98, 1, BISHOP, 1, 34);
move_new_ek!(c03_inc_bishop_ek_99, 1, BISHOP, 1, 35);
move_new_ek!(c03_inc_bishop_ek_100, 1, BISHOP, 1, 36);
move_new_ek!(c03_inc_bishop_ek_101, 1, BISHOP, 1, 37);
move_new_ek!(c03_inc_bishop_ek_102, 1, BISHOP, 1, 38);
move_new_ek!(c03_inc_bishop_ek_103, 1, BISHOP, 1, 39);
move_new_ek!(c03_inc_bishop_ek_104, 1, BISHOP, 1, 40);
move_new_ek!(c03_inc_bishop_ek_105, 1, BISHOP, 1, 41);
move_new_ek!(c03_inc_bishop_ek_106, 1, BISHOP, 1, 42);
move_new_ek!(c03_inc_bishop_ek_107, 1, BISHOP, 1, 43);
move_new_ek!(c03_inc_bishop_ek_108, 1, BISHOP, 1, 44);
move_new_ek!(c03_inc_bishop_ek_109, 1, BISHOP, 1, 45);
move_new_ek!(c03_inc_bishop_ek_110, 1, BISHOP, 1, 46);
move_new_ek!(c03_inc_bishop_ek_111, 1, BISHOP, 1, 47);
move_new_ek!(c03_inc_bishop_ek_112, 1, BISHOP, 1, 48);
move_new_ek!(c03_inc_bishop_ek_113, 1, BISHOP, 1, 49);
move_new_ek!(c03_inc_bishop_ek_114, 1, BISHOP, 1, 50);
move_new_ek!(c03_inc_bishop_ek_115, 1, BISHOP, 1, 51);
move_new_ek!(c03_inc_bishop_ek_116, 1, BISHOP, 1, 52);
move_new_ek!(c03_inc_bishop_ek_117, 1, BISHOP, 1, 53);
move_new_ek!(c03_inc_bishop_ek_118, 1, BISHOP, 1, 54);
move_new_ek!(c03_inc_bishop_ek_119, 1, BISHOP, 1, 55);
move_new_ek!(c03_inc_bishop_ek_120, 1, BISHOP, 1, 56);
move_new_ek!(c03_inc_bishop_ek_121, 1, BISHOP, 1, 57);
move_new_ek!(c03_inc_bishop_ek_122, 1, BISHOP, 1, 58);
move_new_ek!(c03_inc_bishop_ek_123, 1, BISHOP, 1, 59);
move_new_ek!(c03_inc_bishop_ek_124, 1, BISHOP, 1, 60);
move_new_ek!(c03_inc_bishop_ek_125, 1, BISHOP, 1, 61);
move_new_ek!(c03_inc_bishop_ek_126, 1, BISHOP, 1, 62);
move_new_ek!(c03_inc_bishop_ek_127, 1, BISHOP, 1, 63);
// harness-family: c03_inc_rook_ek_{0..127}
move_new_ek!(c03_inc_rook_ek_0, 1, ROOK, 0, 0);
move_new_ek!(c03_inc_rook_ek_1, 1, ROOK, 0, 1);
move_new_ek!(c03_inc_rook_ek_2, 1, ROOK, 0, 2);
move_new_ek!(c03_inc_rook_ek_3, 1, ROOK, 0, 3);
move_new_ek!(c03_inc_rook_ek_4, 1, ROOK, 0, 4);
move_new_ek!(c03_inc_rook_ek_5, 1, ROOK, 0, 5);
move_new_ek!(c03_inc_rook_ek_6, 1, ROOK, 0, 6);
move_new_ek!(c03_inc_rook_ek_7, 1, ROOK, 0, 7);
move_new_ek!(c03_inc_rook_ek_8, 1, ROOK, 0, 8);
move_new_ek!(c03_inc_rook_ek_9, 1, ROOK, 0, 9);
move_new_ek!(c03_inc_rook_ek_10, 1, ROOK, 0, 10);
move_new_ek!(c03_inc_rook_ek_11, 1, ROOK, 0, 11);
move_new_ek!(c03_inc_rook_ek_12, 1, ROOK, 0, 12);
move_new_ek!(c03_inc_rook_ek_13, 1, ROOK, 0, 13);
move_new_ek!(c03_inc_rook_ek_14, 1, ROOK, 0, 14);
move_new_ek!(c03_inc_rook_ek_15, 1, ROOK, 0, 15);
move_new_ek!(c03_inc_rook_ek_16, 1, ROOK, 0, 16);
move_new_ek!(c03_inc_rook_ek_17, 1, ROOK, 0, 17);
move_new_ek!(c03_inc_rook_ek_18, 1, ROOK, 0, 18);
move_new_ek!(c03_inc_rook_ek_19, 1, ROOK, 0, 19);
move_new_ek!(c03_inc_rook_ek_20, 1, ROOK, 0, 20);
move_new_ek!(c03_inc_rook_ek_21, 1, ROOK, 0, 21);
move_new_ek!(c03_inc_rook_ek_22, 1, ROOK, 0, 22);
move_new_ek!(c03_inc_rook_ek_23, 1, ROOK, 0, 23);
move_new_ek!(c03_inc_rook_ek_24, 1, ROOK, 0, 24);
move_new_ek!(c03_inc_rook_ek_25, 1, ROOK, 0, 25);
move_new_ek!(c03_inc_rook_ek_26, 1, ROOK, 0, 26);
move_new_ek!(c03_inc_rook_ek_27, 1, ROOK, 0, 27);
move_new_ek!(c03_inc_rook_ek_28, 1, ROOK, 0, 28);
move_new_ek!(c03_inc_rook_ek_29, 1, ROOK, 0, 29);
move_new_ek!(c03_inc_rook_ek_30, 1, ROOK, 0, 30);
move_new_ek!(c03_inc_rook_ek_31, 1, ROOK, 0, 31);
move_new_ek!(c03_inc_rook_ek_32, 1, ROOK, 0, 32);
move_new_ek!(c03_inc_rook_ek_33, 1, ROOK, 0, 33);
move_new_ek!(c03_inc_rook_ek_34, 1, ROOK, 0, 34);
move_new_ek!(c03_inc_rook_ek_35, 1, ROOK, 0, 35);
move_new_ek!(c03_inc_rook_ek_36, 1, ROOK, 0, 36);
move_new_ek!(c03_inc_rook_ek_37, 1, ROOK, 0, 37);
move_new_ek!(c03_inc_rook_ek_38, 1, ROOK, 0, 38);
move_new_ek!(c03_inc_rook_ek_39, 1, ROOK, 0, 39);
move_new_ek!(c03_inc_rook_ek_40, 1, ROOK, 0, 40);
move_new_ek!(c03_inc_rook_ek_41, 1, ROOK, 0, 41);
move_new_ek!(c03_inc_rook_ek_42, 1, ROOK, 0, 42);
move_new_ek!(c03_inc_rook_ek_43, 1, ROOK, 0, 43);
move_new_ek!(c03_inc_rook_ek_44, 1, ROOK, 0, 44);
move_new_ek!(c03_inc_rook_ek_45, 1, ROOK, 0, 45);
move_new_ek!(c03_inc_rook_ek_46, 1, ROOK, 0, 46);
move_new_ek!(c03_inc_rook_ek_47, 1, ROOK, 0, 47);
move_new_ek!(c03_inc_rook_ek_48, 1, ROOK, 0, 48);
move_new_ek!(c03_inc_rook_ek_49, 1, ROOK, 0, 49);
move_new_ek!(c03_inc_rook_ek_50, 1, ROOK, 0, 50);
move_new_ek!(c03_inc_rook_ek_51, 1, ROOK, 0, 51);
move_new_ek!(c03_inc_rook_ek_52, 1, ROOK, 0, 52);
move_new_ek!(c03_inc_rook_ek_53, 1, ROOK, 0, 53);
move_new_ek!(c03_inc_rook_ek_54, 1, ROOK, 0, 54);
move_new_ek!(c03_inc_rook_ek_55, 1, ROOK, 0, 55);
move_new_ek!(c03_inc_rook_ek_56, 1, ROOK, 0, 56);
move_new_ek!(c03_inc_rook_ek_57, 1, ROOK, 0, 57);
move_new_ek!(c03_inc_rook_ek_58, 1, ROOK, 0, 58);
move_new_ek!(c03_inc_rook_ek_59, 1, ROOK, 0, 59);
move_new_ek!(c03_inc_rook_ek_60, 1, ROOK, 0, 60);
move_new_ek!(c03_inc_rook_ek_61, 1, ROOK, 0, 61);
move_new_ek!(c03_inc_rook_ek_62, 1, ROOK, 0, 62);
move_new_ek!(c03_inc_rook_ek_63, 1, ROOK, 0, 63);
move_new_ek!(c03_inc_rook_ek_64, 1, ROOK, 1, 0);
move_new_ek!(c03_inc_rook_ek_65, 1, ROOK, 1, 1);
move_new_ek!(c03_inc_rook_ek_66, 1, ROOK, 1, 2);
move_new_ek!(c03_inc_rook_ek_67, 1, ROOK, 1, 3);
move_new_ek!(c03_inc_rook_ek_68, 1, ROOK, 1, 4);
move_new_ek!(c03_inc_rook_ek_69, 1, ROOK, 1, 5);
move_new_ek!(c03_inc_rook_ek_70, 1, ROOK, 1, 6);
move_new_ek!(c03_inc_rook_ek_71, 1, ROOK, 1, 7);
move_new_ek!(c03_inc_rook_ek_72, 1, ROOK, 1, 8);
move_new_ek!(c03_inc_rook_ek_73, 1, ROOK, 1, 9);
move_new_ek!(c03_inc_rook_ek_74, 1, ROOK, 1, 10);
move_new_ek!(c03_inc_rook_ek_75, 1, ROOK, 1, 11);
move_new_ek!(c03_inc_rook_ek_76, 1, ROOK, 1, 12);
move_new_ek!(c03_inc_rook_ek_77, 1, ROOK, 1, 13);
move_new_ek!(c03_inc_rook_ek_78, 1, ROOK, 1, 14);
move_new_ek!(c03_inc_rook_ek_79, 1, ROOK, 1, 15);
move_new_ek!(c03_inc_rook_ek_80, 1, ROOK, 1, 16);
move_new_ek!(c03_inc_rook_ek_81, 1, ROOK, 1, 17);
move_new_ek!(c03_inc_rook_ek_82, 1, ROOK, 1, 18);
move_new_ek!(c03_inc_rook_ek_83, 1, ROOK, 1, 19);
move_new_ek!(c03_inc_rook_ek_84, 1, ROOK, 1, 20);
move_new_ek!(c03_inc_rook_ek_85, 1, ROOK, 1, 21);
move_new_ek!(c03_inc_rook_ek_86, 1, ROOK, 1, 22);
move_new_ek!(c03_inc_rook_ek_87, 1, ROOK, 1, 23);
move_new_ek!(c03_inc_rook_ek_88, 1, ROOK, 1, 24);
move_new_ek!(c03_inc_rook_ek_89, 1, ROOK, 1, 25);
move_new_ek!(c03_inc_rook_ek_90, 1, ROOK, 1, 26);
move_new_ek!(c03_inc_rook_ek_91, 1, ROOK, 1, 27);
move_new_ek!(c03_inc_rook_ek_92, 1, ROOK, 1, 28);
move_new_ek!(c03_inc_rook_ek_93, 1, ROOK, 1, 29);
move_new_ek!(c03_inc_rook_ek_94, 1, ROOK, 1, 30);
move_new_ek!(c03_inc_rook_ek_95, 1, ROOK, 1, 31);
move_new_ek!(c03_inc_rook_ek_96, 1, ROOK, 1, 32);
move_new_ek!(c03_inc_rook_ek_97, 1, ROOK, 1, 33);
move_new_ek!(c03_inc_rook_ek_98, 1, ROOK, 1, 34);
move_new_ek!(c03_inc_rook_ek_99, 1, ROOK, 1, 35);
move_new_ek!(c03_inc_rook_ek_100, 1, ROOK, 1, 36);
move_new_ek!(c03_inc_rook_ek_101, 1, ROOK, 1, 37);
move_new_ek!(c03_inc_rook_ek_102, 1, ROOK, 1, 38);
move_new_ek!(c03_inc_rook_ek_103, 1, ROOK, 1, 39);
move_new_ek!(c03_inc_rook_ek_104, 1, ROOK, 1, 40);
move_new_ek!(c03_inc_rook_ek_105, 1, ROOK, 1, 41);
move_new_ek!(c03_inc_rook_ek_106, 1, ROOK, 1, 42);
move_new_ek!(c03_inc_rook_ek_107, 1, ROOK, 1, 43);
move_new_ek!(c03_inc_rook_ek_108, 1, ROOK, 1, 44);
move_new_ek!(c03_inc_rook_ek_109, 1, ROOK, 1, 45);
move_new_ek!(c03_inc_rook_ek_110, 1, ROOK, 1, 46);
move_new_ek!(c03_inc_rook_ek_111, 1, ROOK, 1, 47);
move_new_ek!(c03_inc_rook_ek_112, 1, ROOK, 1, 48);
move_new_ek!(c03_inc_rook_ek_113, 1, ROOK, 1, 49);
move_new_ek!(c03_inc_rook_ek_114, 1, ROOK, 1, 50);
move_new_ek!(c03_inc_rook_ek_115, 1, ROOK, 1, 51);
move_new_ek!(c03_inc_rook_ek_116, 1, ROOK, 1, 52);
move_new_ek!(c03_inc_rook_ek_117, 1, ROOK, 1, 53);
move_new_ek!(c03_inc_rook_ek_118, 1, ROOK, 1, 54);
move_new_ek!(c03_inc_rook_ek_119, 1, ROOK, 1, 55);
move_new_ek!(c03_inc_rook_ek_120, 1, ROOK, 1, 56);
move_new_ek!(c03_inc_rook_ek_121, 1, ROOK, 1, 57);
move_new_ek!(c03_inc_rook_ek_122, 1, ROOK, 1, 58);
move_new_ek!(c03_inc_rook_ek_123, 1, ROOK, 1, 59);
move_new_ek!(c03_inc_rook_ek_124, 1, ROOK, 1, 60);
move_new_ek!(c03_inc_rook_ek_125, 1, ROOK, 1, 61);
move_new_ek!(c03_inc_rook_ek_126, 1, ROOK, 1, 62);
move_new_ek!(c03_inc_rook_ek_127, 1, ROOK, 1, 63);
// harness-family: c03_inc_queen_ek_{0..127}
move_new_ek!(c03_inc_queen_ek_0, 1, QUEEN, 0, 0);
move_new_ek!(c03_inc_queen_ek_1, 1, QUEEN, 0, 1);
move_new_ek!(c03_inc_queen_ek_2, 1, QUEEN, 0, 2);
move_new_ek!(c03_inc_queen_ek_3, 1, QUEEN, 0, 3);
move_new_ek!(c03_inc_queen_ek_4, 1, QUEEN, 0, 4);
move_new_ek!(c03_inc_queen_ek_5, 1, QUEEN, 0, 5);
move_new_ek!(c03_inc_queen_ek_6, 1, QUEEN, 0, 6);
move_new_ek!(c03_inc_queen_ek_7, 1, QUEEN, 0, 7);
move_new_ek!(c03_inc_queen_ek_8, 1, QUEEN, 0, 8);
move_new_ek!(c03_inc_queen_ek_9, 1, QUEEN, 0, 9);
move_new_ek!(c03_inc_queen_ek_10, 1, QUEEN, 0, 10);
move_new_ek!(c03_inc_queen_ek_11, 1, QUEEN, 0, 11);
move_new_ek!(c03_inc_queen_ek_12, 1, QUEEN, 0, 12);
move_new_ek!(c03_inc_queen_ek_13, 1, QUEEN, 0, 13);
move_new_ek!(c03_inc_queen_ek_14, 1, QUEEN, 0, 14);
move_new_ek!(c03_inc_queen_ek_15, 1, QUEEN, 0, 15);
move_new_ek!(c03_inc_queen_ek_16, 1, QUEEN, 0, 16);
move_new_ek!(c03_inc_queen_ek_17, 1, QUEEN, 0, 17);
move_new_ek!(c03_inc_queen_ek_18, 1, QUEEN, 0, 18);
move_new_ek!(c03_inc_queen_ek_19, 1, QUEEN, 0, 19);
move_new_ek!(c03_inc_queen_ek_20, 1, QUEEN, 0, 20);
move_new_ek!(c03_inc_queen_ek_21, 1, QUEEN, 0, 21);
move_new_ek!(c03_inc_queen_ek_22, 1, QUEEN, 0, 22);
move_new_ek!(c03_inc_queen_ek_23, 1, QUEEN, 0, 23);
move_new_ek!(c03_inc_queen_ek_24, 1, QUEEN, 0, 24);
move_new_ek!(c03_inc_queen_ek_25, 1, QUEEN, 0, 25);
move_new_ek!(c03_inc_queen_ek_26, 1, QUEEN, 0, 26);
move_new_ek!(c03_inc_queen_ek_27, 1, QUEEN, 0, 27);
move_new_ek!(c03_inc_queen_ek_28, 1, QUEEN, 0, 28);
move_new_ek!(c03_inc_queen_ek_29, 1, QUEEN, 0, 29);
move_new_ek!(c03_inc_queen_ek_30, 1, QUEEN, 0, 30);
move_new_ek!(c03_inc_queen_ek_31, 1, QUEEN, 0, 31);
move_new_ek!(c03_inc_queen_ek_32, 1, QUEEN, 0, 32);
move_new_ek!(c03_inc_queen_ek_33, 1, QUEEN, 0, 33);
move_new_ek!(c03_inc_queen_ek_34, 1, QUEEN, 0, 34);
move_new_ek!(c03_inc_queen_ek_35, 1, QUEEN, 0, 35);
move_new_ek!(c03_inc_queen_ek_36, 1, QUEEN, 0, 36);
move_new_ek!(c03_inc_queen_ek_37, 1, QUEEN, 0, 37);
move_new_ek!(c03_inc_queen_ek_38, 1, QUEEN, 0, 38);
move_new_ek!(c03_inc_queen_ek_39, 1, QUEEN, 0, 39);
move_new_ek!(c03_inc_queen_ek_40, 1, QUEEN, 0, 40);
move_new_ek!(c03_inc_queen_ek_41, 1, QUEEN, 0, 41);
move_new_ek!(c03_inc_queen_ek_42, 1, QUEEN, 0, 42);
move_new_ek!(c03_inc_queen_ek_43, 1, QUEEN, 0, 43);
move_new_ek!(c03_inc_queen_ek_44, 1, QUEEN, 0, 44);
move_new_ek!(c03_inc_queen_ek_45, 1, QUEEN, 0, 45);
move_new_ek!(c03_inc_queen_ek_46, 1, QUEEN, 0, 46);
move_new_ek!(c03_inc_queen_ek_47, 1, QUEEN, 0, 47);
move_new_ek!(c03_inc_queen_ek_48, 1, QUEEN, 0, 48);
move_new_ek!(c03_inc_queen_ek_49, 1, QUEEN, 0, 49);
move_new_ek!(c03_inc_queen_ek_50, 1, QUEEN, 0, 50);
move_new_ek!(c03_inc_queen_ek_51, 1, QUEEN, 0, 51);
move_new_ek!(c03_inc_queen_ek_52, 1, QUEEN, 0, 52);
move_new_ek!(c03_inc_queen_ek_53, 1, QUEEN, 0, 53);
move_new_ek!(c03_inc_queen_ek_54, 1, QUEEN, 0, 54);
move_new_ek!(c03_inc_queen_ek_55, 1, QUEEN, 0, 55);
move_new_ek!(c03_inc_queen_ek_56, 1, QUEEN, 0, 56);
move_new_ek!(c03_inc_queen_ek_57, 1, QUEEN, 0, 57);
move_new_ek!(c03_inc_queen_ek_58, 1, QUEEN, 0, 58);
move_new_ek!(c03_inc_queen_ek_59, 1, QUEEN, 0, 59);
move_new_ek!(c03_inc_queen_ek_60, 1, QUEEN, 0, 60);
move_new_ek!(c03_inc_queen_ek_61, 1, QUEEN, 0, 61);
move_new_ek!(c03_inc_queen_ek_62, 1, QUEEN, 0, 62);
move_new_ek!(c03_inc_queen_ek_63, 1, QUEEN, 0, 63);
move_new_ek!(c03_inc_queen_ek_64, 1, QUEEN, 1, 0);
move_new_ek!(c03_inc_queen_ek_65, 1, QUEEN, 1, 1);
move_new_ek!(c03_inc_queen_ek_66, 1, QUEEN, 1, 2);
move_new_ek!(c03_inc_queen_ek_67, 1, QUEEN, 1, 3);
move_new_ek!(c03_inc_queen_ek_68, 1, QUEEN, 1, 4);
move_new_ek!(c03_inc_queen_ek_69, 1, QUEEN, 1, 5);
move_new_ek!(c03_inc_queen_ek_70, 1, QUEEN, 1, 6);
move_new_ek!(c03_inc_queen_ek_71, 1, QUEEN, 1, 7);
move_new_ek!(c03_inc_queen_ek_72, 1, QUEEN, 1, 8);
move_new_ek!(c03_inc_queen_ek_73, 1, QUEEN, 1, 9);
move_new_ek!(c03_inc_queen_ek_74, 1, QUEEN, 1, 10);
move_new_ek!(c03_inc_queen_ek_75, 1, QUEEN, 1, 11);
move_new_ek!(c03_inc_queen_ek_76, 1, QUEEN, 1, 12);
move_new_ek!(c03_inc_queen_ek_77, 1, QUEEN, 1, 13);
move_new_ek!(c03_inc_queen_ek_78, 1, QUEEN, 1, 14);
move_new_ek!(c03_inc_queen_ek_79, 1, QUEEN, 1, 15);
move_new_ek!(c03_inc_queen_ek_80, 1, QUEEN, 1, 16);
move_new_ek!(c03_inc_queen_ek_81, 1, QUEEN, 1, 17);
move_new_ek!(c03_inc_queen_ek_82, 1, QUEEN, 1, 18);
move_new_ek!(c03_inc_queen_ek_83, 1, QUEEN, 1, 19);
move_new_ek!(c03_inc_queen_ek_84, 1, QUEEN, 1, 20);
move_new_ek!(c03_inc_queen_ek_85, 1, QUEEN, 1, 21);
move_new_ek!(c03_inc_queen_ek_86, 1, QUEEN, 1, 22);
move_new_ek!(c03_inc_queen_ek_87, 1, QUEEN, 1, 23);
move_new_ek!(c03_inc_queen_ek_88, 1, QUEEN, 1, 24);
move_new_ek!(c03_inc_queen_ek_89, 1, QUEEN, 1, 25);
move_new_ek!(c03_inc_queen_ek_90, 1, QUEEN, 1, 26);
move_new_ek!(c03_inc_queen_ek_91, 1, QUEEN, 1, 27);
move_new_ek!(c03_inc_queen_ek_92, 1, QUEEN, 1, 28);
move_new_ek!(c03_inc_queen_ek_93, 1, QUEEN, 1, 29);
move_new_ek!(c03_inc_queen_ek_94, 1, QUEEN, 1, 30);
move_new_ek!(c03_inc_queen_ek_95, 1, QUEEN, 1, 31);
move_new_ek!(c03_inc_queen_ek_96, 1, QUEEN, 1, 32);
move_new_ek!(c03_inc_queen_ek_97, 1, QUEEN, 1, 33);
move_new_ek!(c03_inc_queen_ek_98, 1, QUEEN, 1, 34);
move_new_ek!(c03_inc_queen_ek_99, 1, QUEEN, 1, 35);
move_new_ek!(c03_inc_queen_ek_100, 1, QUEEN, 1, 36);
move_new_ek!(c03_inc_queen_ek_101, 1, QUEEN, 1, 37);
move_new_ek!(c03_inc_queen_ek_102, 1, QUEEN, 1, 38);
move_new_ek!(c03_inc_queen_ek_103, 1, QUEEN, 1, 39);
move_new_ek!(c03_inc_queen_ek_104, 1, QUEEN, 1, 40);
move_new_ek!(c03_inc_queen_ek_105, 1, QUEEN, 1, 41);
move_new_ek!(c03_inc_queen_ek_106, 1, QUEEN, 1, 42);
move_new_ek!(c03_inc_queen_ek_107, 1, QUEEN, 1, 43);
move_new_ek!(c03_inc_queen_ek_108, 1, QUEEN, 1, 44);
move_new_ek!(c03_inc_queen_ek_109, 1, QUEEN, 1, 45);
move_new_ek!(c03_inc_queen_ek_110, 1, QUEEN, 1, 46);
move_new_ek!(c03_inc_queen_ek_111, 1, QUEEN, 1, 47);
move_new_ek!(c03_inc_queen_ek_112, 1, QUEEN, 1, 48);
move_new_ek!(c03_inc_queen_ek_113, 1, QUEEN, 1, 49);
move_new_ek!(c03_inc_queen_ek_114, 1, QUEEN, 1, 50);
move_new_ek!(c03_inc_queen_ek_115, 1, QUEEN, 1, 51);
move_new_ek!(c03_inc_queen_ek_116, 1, QUEEN, 1, 52);
move_new_ek!(c03_inc_queen_ek_117, 1, QUEEN, 1, 53);
move_new_ek!(c03_inc_queen_ek_118, 1, QUEEN, 1, 54);
move_new_ek!(c03_inc_queen_ek_119, 1, QUEEN, 1, 55);
move_new_ek!(c03_inc_queen_ek_120, 1, QUEEN, 1, 56);
move_new_ek!(c03_inc_queen_ek_121, 1, QUEEN, 1, 57);
move_new_ek!(c03_inc_queen_ek_122, 1, QUEEN, 1, 58);
move_new_ek!(c03_inc_queen_ek_123, 1, QUEEN, 1, 59);
move_new_ek!(c03_inc_queen_ek_124, 1, QUEEN, 1, 60);
move_new_ek!(c03_inc_queen_ek_125, 1, QUEEN, 1, 61);
move_new_ek!(c03_inc_queen_ek_126, 1, QUEEN, 1, 62);
move_new_ek!(c03_inc_queen_ek_127, 1, QUEEN, 1, 63);
// harness-family: c03_inc_king_ek_{0..127}
move_new_ek!(c03_inc_king_ek_0, 1, KING, 0, 0);
move_new_ek!(c03_inc_king_ek_1, 1, KING, 0, 1);
move_new_ek!(c03_inc_king_ek_2, 1, KING, 0, 2);
move_new_ek!(c03_inc_king_ek_3, 1, KING, 0, 3);
move_new_ek!(c03_inc_king_ek_4, 1, KING, 0, 4);
move_new_ek!(c03_inc_king_ek_5, 1, KING, 0, 5);
move_new_ek!(c03_inc_king_ek_6, 1, KING, 0, 6);
move_new_ek!(c03_inc_king_ek_7, 1, KING, 0, 7);
move_new_ek!(c03_inc_king_ek_8, 1, KING, 0, 8);
move_new_ek!(c03_inc_king_ek_9, 1, KING, 0, 9);
move_new_ek!(c03_inc_king_ek_10, 1, KING, 0, 10);
move_new_ek!(c03_inc_king_ek_11, 1, KING, 0, 11);
move_new_ek!(c03_inc_king_ek_12, 1, KING, 0, 12);
move_new_ek!(c03_inc_king_ek_13, 1, KING, 0, 13);
move_new_ek!(c03_inc_king_ek_14, 1, KING, 0, 14);
move_new_ek!(c03_inc_king_ek_15, 1, KING, 0, 15);
move_new_ek!(c03_inc_king_ek_16, 1, KING, 0, 16);
move_new_ek!(c03_inc_king_ek_17, 1, KING, 0, 17);
move_new_ek!(c03_inc_king_ek_18, 1, KING, 0, 18);
move_new_ek!(c03_inc_king_ek_19, 1, KING, 0, 19);
move_new_ek!(c03_inc_king_ek_20, 1, KING, 0, 20);
move_new_ek!(c03_inc_king_ek_21, 1, KING, 0, 21);
move_new_ek!(c03_inc_king_ek_22, 1, KING, 0, 22);
move_new_ek!(c03_inc_king_ek_23, 1, KING, 0, 23);
move_new_ek!(c03_inc_king_ek_24, 1, KING, 0, 24);
move_new_ek!(c03_inc_king_ek_25, 1, KING, 0, 25);
move_new_ek!(c03_inc_king_ek_26, 1, KING, 0, 26);
move_new_ek!(c03_inc_king_ek_27, 1, KING, 0, 27);
move_new_ek!(c03_inc_king_ek_28, 1, KING, 0, 28);
move_new_ek!(c03_inc_king_ek_29, 1, KING, 0, 29);
move_new_ek!(c03_inc_king_ek_30, 1, KING, 0, 30);
move_new_ek!(c03_inc_king_ek_31, 1, KING, 0, 31);
move_new_ek!(c03_inc_king_ek_32, 1, KING, 0, 32);
move_new_ek!(c03_inc_king_ek_33, 1, KING, 0, 33);
move_new_ek!(c03_inc_king_ek_34, 1, KING, 0, 34);
move_new_ek!(c03_inc_king_ek_35, 1, KING, 0, 35);
move_new_ek!(c03_inc_king_ek_36, 1, KING, 0, 36);
move_new_ek!(c03_inc_king_ek_37, 1, KING, 0, 37);
move_new_ek!(c03_inc_king_ek_38, 1, KING, 0, 38);
move_new_ek!(c03_inc_king_ek_39, 1, KING, 0, 39);
move_new_ek!(c03_inc_king_ek_40, 1, KING, 0, 40);
move_new_ek!(c03_inc_king_ek_41, 1, KING, 0, 41);
move_new_ek!(c03_inc_king_ek_42, 1, KING, 0, 42);
move_new_ek!(c03_inc_king_ek_43, 1, KING, 0, 43);
move_new_ek!(c03_inc_king_ek_44, 1, KING, 0, 44);
move_new_ek!(c03_inc_king_ek_45, 1, KING, 0, 45);
move_new_ek!(c03_inc_king_ek_46, 1, KING, 0, 46);
move_new_ek!(c03_inc_king_ek_47, 1, KING, 0, 47);
move_new_ek!(c03_inc_king_ek_48, 1, KING, 0, 48);
move_new_ek!(c03_inc_king_ek_49, 1, KING, 0, 49);
move_new_ek!(c03_inc_king_ek_50, 1, KING, 0, 50);
move_new_ek!(c03_inc_king_ek_51, 1, KING, 0, 51);
move_new_ek!(c03_inc_king_ek_52, 1, KING, 0, 52);
move_new_ek!(c03_inc_king_ek_53, 1, KING, 0, 53);
move_new_ek!(c03_inc_king_ek_54, 1, KING, 0, 54);
move_new_ek!(c03_inc_king_ek_55, 1, KING, 0, 55);
move_new_ek!(c03_inc_king_ek_56, 1, KING, 0, 56);
move_new_ek!(c03_inc_king_ek_57, 1, KING, 0, 57);
move_new_ek!(c03_inc_king_ek_58, 1, KING, 0, 58);
move_new_ek!(c03_inc_king_ek_59, 1, KING, 0, 59);
move_new_ek!(c03_inc_king_ek_60, 1, KING, 0, 60);
move_new_ek!(c03_inc_king_ek_61, 1, KING, 0, 61);
move_new_ek!(c03_inc_king_ek_62, 1, KING, 0, 62);
move_new_ek!(c03_inc_king_ek_63, 1, KING, 0, 63);
move_new_ek!(c03_inc_king_ek_64, 1, KING, 1, 0);
move_new_ek!(c03_inc_king_ek_65, 1, KING, 1, 1);
move_new_ek!(c03_inc_king_ek_66, 1, KING, 1, 2);
move_new_ek!(c03_inc_king_ek_67, 1, KING, 1, 3);
move_new_ek!(c03_inc_king_ek_68, 1, KING, 1, 4);
move_new_ek!(c03_inc_king_ek_69, 1, KING, 1, 5);
move_new_ek!(c03_inc_king_ek_70, 1, KING, 1, 6);
move_new_ek!(c03_inc_king_ek_71, 1, KING, 1, 7);
move_new_ek!(c03_inc_king_ek_72, 1, KING, 1, 8);
move_new_ek!(c03_inc_king_ek_73, 1, KING, 1, 9);
move_new_ek!(c03_inc_king_ek_74, 1, KING, 1, 10);
move_new_ek!(c03_inc_king_ek_75, 1, KING, 1, 11);
move_new_ek!(c03_inc_king_ek_76, 1, KING, 1, 12);
move_new_ek!(c03_inc_king_ek_77, 1, KING, 1, 13);
move_new_ek!(c03_inc_king_ek_78, 1, KING, 1, 14);
move_new_ek!(c03_inc_king_ek_79, 1, KING, 1, 15);
move_new_ek!(c03_inc_king_ek_80, 1, KING, 1, 16);
move_new_ek!(c03_inc_king_ek_81, 1, KING, 1, 17);
move_new_ek!(c03_inc_king_ek_82, 1, KING, 1, 18);
move_new_ek!(c03_inc_king_ek_83, 1, KING, 1, 19);
move_new_ek!(c03_inc_king_ek_84, 1, KING, 1, 20);
move_new_ek!(c03_inc_king_ek_85, 1, KING, 1, 21);
move_new_ek!(c03_inc_king_ek_86, 1, KING, 1, 22);
move_new_ek!(c03_inc_king_ek_87, 1, KING, 1, 23);
move_new_ek!(c03_inc_king_ek_88, 1, KING, 1, 24);
move_new_ek!(c03_inc_king_ek_89, 1, KING, 1, 25);
move_new_ek!(c03_inc_king_ek_90, 1, KING, 1, 26);
move_new_ek!(c03_inc_king_ek_91, 1, KING, 1, 27);
move_new_ek!(c03_inc_king_ek_92, 1, KING, 1, 28);
move_new_ek!(c03_inc_king_ek_93, 1, KING, 1, 29);
move_new_ek!(c03_inc_king_ek_94, 1, KING, 1, 30);
move_new_ek!(c03_inc_king_ek_95, 1, KING, 1, 31);
move_new_ek!(c03_inc_king_ek_96, 1, KING, 1, 32);
move_new_ek!(c03_inc_king_ek_97, 1, KING, 1, 33);
move_new_ek!(c03_inc_king_ek_98, 1, KING, 1, 34);
move_new_ek!(c03_inc_king_ek_99, 1, KING, 1, 35);
move_new_ek!(c03_inc_king_ek_100, 1, KING, 1, 36);
move_new_ek!(c03_inc_king_ek_101, 1, KING, 1, 37);
move_new_ek!(c03_inc_king_ek_102, 1, KING, 1, 38);
move_new_ek!(c03_inc_king_ek_103, 1, KING, 1, 39);
move_new_ek!(c03_inc_king_ek_104, 1, KING, 1, 40);
move_new_ek!(c03_inc_king_ek_105, 1, KING, 1, 41);
move_new_ek!(c03_inc_king_ek_106, 1, KING, 1, 42);
move_new_ek!(c03_inc_king_ek_107, 1, KING, 1, 43);
move_new_ek!(c03_inc_king_ek_108, 1, KING, 1, 44);
move_new_ek!(c03_inc_king_ek_109, 1, KING, 1, 45);
move_new_ek!(c03_inc_king_ek_110, 1, KING, 1, 46);
move_new_ek!(c03_inc_king_ek_111, 1, KING, 1, 47);
move_new_ek!(c03_inc_king_ek_112, 1, KING, 1, 48);
move_new_ek!(c03_inc_king_ek_113, 1, KING, 1, 49);
move_new_ek!(c03_inc_king_ek_114, 1, KING, 1, 50);
move_new_ek!(c03_inc_king_ek_115, 1, KING, 1, 51);
move_new_ek!(c03_inc_king_ek_116, 1, KING, 1, 52);
move_new_ek!(c03_inc_king_ek_117, 1, KING, 1, 53);
move_new_ek!(c03_inc_king_ek_118, 1, KING, 1, 54);
move_new_ek!(c03_inc_king_ek_119, 1, KING, 1, 55);
move_new_ek!(c03_inc_king_ek_120, 1, KING, 1, 56);
move_new_ek!(c03_inc_king_ek_121, 1, KING, 1, 57);
move_new_ek!(c03_inc_king_ek_122, 1, KING, 1, 58);
move_new_ek!(c03_inc_king_ek_123, 1, KING, 1, 59);
move_new_ek!(c03_inc_king_ek_124, 1, KING, 1, 60);
move_new_ek!(c03_inc_king_ek_125, 1, KING, 1, 61);
move_new_ek!(c03_inc_king_ek_126, 1, KING, 1, 62);
move_new_ek!(c03_inc_king_ek_127, 1, KING, 1, 63);
// harness: c02_special_case_witnesses_e8
// harness: c03_special_case_witnesses_f8

// witnesses that the special cases are inside the explored space (White to move; enemy king on
// f8: castling-rook check on the f-file, en-passant discovered check, knight-promotion check;
// enemy king on e8: capture of a home rook that costs the opponent a castling right)
fn witness_prelude(eksq: u8) -> (SBoard, SMove, SBoard) {
    let (s, m, _h, b) = any_position_and_move_kk(Some(0), None, Some(eksq));
    let legal = expect(&s, m);
    kani::assume(legal);
    let n = successor(&s, m);
    bounded_attackers(&n, s.turn);
    let after = b.move_new(to_move(m));
    assert!(after.is_some());
    (s, m, n)
}
stubs! {
    #[kani::proof]
    #[kani::unwind(10)]
    pub fn c02_special_case_witnesses_e8() {
        let (s, m, n) = witness_prelude(60);
        let moved = s.piece_at(m.from);
        kani::cover!(n.rights != s.rights && moved != Some(KING) && moved != Some(ROOK));
        kani::cover!(n.ep.is_some());
        kani::cover!(moved == Some(PAWN) && Some(m.to) == s.ep_square());
        kani::cover!(moved == Some(KING) && (m.to as i8 - m.from as i8).abs() == 2);
        kani::cover!(m.promo.is_some() && has(s.occ(), m.to));
    }
}
stubs! {
    #[kani::proof]
    #[kani::unwind(10)]
    pub fn c03_special_case_witnesses_f8() {
        let (s, m, n) = witness_prelude(61);
        let moved = s.piece_at(m.from);
        kani::cover!(moved == Some(KING) && (m.to as i8 - m.from as i8).abs() == 2 && checkers(&n) != 0);
        kani::cover!(m.promo == Some(KNIGHT) && checkers(&n) != 0);
        kani::cover!(moved == Some(PAWN) && Some(m.to) == s.ep_square() && checkers(&n) != 0 && !has(checkers(&n), m.to));
        kani::cover!(pins(&n) != 0 && checkers(&n).count_ones() == 2);
    }
}

// The checked wrappers as gates. `is_legal` answers with a FREE boolean g (its meaning is C01),
// `move_unchecked_into` is replaced by a marker transformation (its meaning is the queries
// above), and the real move_new / move_mut / move_into / move_unchecked / move_unchecked_mut run
// on top: accepted iff g, result = marker(board, move), receiver / output slot bit-identical to
// before on refusal. Cheap, so everything (board, move, output slot) is fully symbolic.
static mut GATE: bool = false;
fn stub_gate(_b: &Board, _mv: ChessMove) -> bool {
    unsafe { GATE }
}
fn marker_code(mv: ChessMove) -> u64 {
    0x9e3779b97f4a7c15u64.wrapping_mul(1 + mv.source as u64 + 64 * mv.dest as u64 + 4096 * mv.piece.map_or(0, |p| p as u64 + 1))
}
unsafe fn stub_move_unchecked_into(b: &Board, mv: ChessMove, output: &mut Board) {
    let mut parts = b.verif_parts();
    parts.zobrist ^= marker_code(mv);
    *output = Board::verif_from_raw(*b.raw(), parts);
}
fn same_board(a: &Board, b: &Board) -> bool {
    to_sboard(a).same(&to_sboard(b)) && a.verif_parts() == b.verif_parts()
}
#[kani::proof]
#[kani::stub(chess_movegen::Board::is_legal, stub_gate)]
#[kani::stub(chess_movegen::Board::move_unchecked_into, stub_move_unchecked_into)]
pub fn c02_checked_wrappers_are_gates() {
    let s = any_sboard();
    let b = to_board(&s, kani::any(), kani::any(), kani::any());
    let mv = to_move(any_smove());
    let g: bool = kani::any();
    unsafe { GATE = g };
    let mut want = b;
    unsafe { stub_move_unchecked_into(&b, mv, &mut want) };
    // move_new
    match b.move_new(mv) {
        Some(r) => assert!(g && same_board(&r, &want)),
        None => assert!(!g),
    }
    // move_mut
    let mut mb = b;
    let ok = mb.move_mut(mv);
    assert!(ok == g);
    assert!(same_board(&mb, if g { &want } else { &b }));
    // move_into, with an arbitrary unrelated board in the output slot
    let o = any_sboard();
    let ob = to_board(&o, kani::any(), kani::any(), kani::any());
    let mut out = ob;
    let ok = b.move_into(mv, &mut out);
    assert!(ok == g);
    assert!(same_board(&out, if g { &want } else { &ob }));
    // the unchecked conveniences agree with move_unchecked_into
    let r = unsafe { b.move_unchecked(mv) };
    assert!(same_board(&r, &want));
    let mut mb2 = b;
    unsafe { mb2.move_unchecked_mut(mv) };
    assert!(same_board(&mb2, &want));
    kani::cover!(g);
    kani::cover!(!g);
}

// ------------------------------------------------------------------------------------ C03

/// from-scratch computation used by the parser and the builder: checkers and pinned equal the
/// definitions, whatever the cached values were before. Shape: side to move and the mover's
/// king square are constants per harness (index i = turn * 64 + king square).
fn body_update_pin_info(turn: u8, ksq: u8) {
    let s = any_sboard_kk(Some(turn), Some(ksq), None);
    kani::assume(valid(&s));
    let k = s.king_sq(s.turn);
    let them = s.colors[(1 - s.turn) as usize];
    let cand = ((s.pieces[BISHOP as usize] | s.pieces[QUEEN as usize]) & them & f::u_bishop_rays(k))
        | ((s.pieces[ROOK as usize] | s.pieces[QUEEN as usize]) & them & f::u_rook_rays(k));
    kani::assume(cand.count_ones() <= MAXATT);
    let mut b = to_board(&s, kani::any(), kani::any(), kani::any());
    b.verif_update_pin_info();
    let p = b.verif_parts();
    #[cfg(cv_replay)]
    if p.checkers.to_u64() != checkers(&s) || p.pinned.to_u64() != pins(&s) {
        crate::report::dump("C03 from scratch", &s, None);
        println!("CEX[C03] checkers got {:#x} want {:#x}; pinned got {:#x} want {:#x}", p.checkers.to_u64(), checkers(&s), p.pinned.to_u64(), pins(&s));
    }
    assert!(p.checkers.to_u64() == checkers(&s));
    assert!(p.pinned.to_u64() == pins(&s));
    assert!(b.in_check() == in_check(&s, s.turn));
    assert!(to_sboard(&b).same(&s));
    kani::cover!(p.checkers.to_u64().count_ones() == 2);
    kani::cover!(p.pinned.to_u64() & them != 0);
}
macro_rules! update_k {
    ($name:ident, $turn:expr, $ksq:expr) => {
        #[kani::proof]
        #[kani::unwind(10)]
        #[kani::stub(l_between, f::between)]
        #[kani::stub(l_rook_rays, f::rook_rays)]
        #[kani::stub(l_bishop_rays, f::bishop_rays)]
        #[kani::stub(l_knight_moves, f::knight_moves)]
        #[kani::stub(l_pawn_attacks_moves, f::pawn_attacks_moves)]
        pub fn $name() { body_update_pin_info($turn, $ksq) }
    };
}
// harness-family: c03_update_pin_info_k_{0..127}
update_k!(c03_update_pin_info_k_0, 0, 0);
update_k!(c03_update_pin_info_k_1, 0, 1);
update_k!(c03_update_pin_info_k_2, 0, 2);
update_k!(c03_update_pin_info_k_3, 0, 3);
update_k!(c03_update_pin_info_k_4, 0, 4);
update_k!(c03_update_pin_info_k_5, 0, 5);
update_k!(c03_update_pin_info_k_6, 0, 6);
update_k!(c03_update_pin_info_k_7, 0, 7);
update_k!(c03_update_pin_info_k_8, 0, 8);
update_k!(c03_update_pin_info_k_9, 0, 9);
update_k!(c03_update_pin_info_k_10, 0, 10);
update_k!(c03_update_pin_info_k_11, 0, 11);
update_k!(c03_update_pin_info_k_12, 0, 12);
update_k!(c03_update_pin_info_k_13, 0, 13);
update_k!(c03_update_pin_info_k_14, 0, 14);
update_k!(c03_update_pin_info_k_15, 0, 15);
update_k!(c03_update_pin_info_k_16, 0, 16);
update_k!(c03_update_pin_info_k_17, 0, 17);
update_k!(c03_update_pin_info_k_18, 0, 18);
update_k!(c03_update_pin_info_k_19, 0, 19);
update_k!(c03_update_pin_info_k_20, 0, 20);
update_k!(c03_update_pin_info_k_21, 0, 21);
update_k!(c03_update_pin_info_k_22, 0, 22);
update_k!(c03_update_pin_info_k_23, 0, 23);
update_k!(c03_update_pin_info_k_24, 0, 24);
update_k!(c03_update_pin_info_k_25, 0, 25);
update_k!(c03_update_pin_info_k_26, 0, 26);
update_k!(c03_update_pin_info_k_27, 0, 27);
update_k!(c03_update_pin_info_k_28, 0, 28);
update_k!(c03_update_pin_info_k_29, 0, 29);
update_k!(c03_update_pin_info_k_30, 0, 30);
update_k!(c03_update_pin_info_k_31, 0, 31);
update_k!(c03_update_pin_info_k_32, 0, 32);
update_k!(c03_update_pin_info_k_33, 0, 33);
update_k!(c03_update_pin_info_k_34, 0, 34);
update_k!(c03_update_pin_info_k_35, 0, 35);
update_k!(c03_update_pin_info_k_36, 0, 36);
update_k!(c03_update_pin_info_k_37, 0, 37);
update_k!(c03_update_pin_info_k_38, 0, 38);
update_k!(c03_update_pin_info_k_39, 0, 39);
update_k!(c03_update_pin_info_k_40, 0, 40);
update_k!(c03_update_pin_info_k_41, 0, 41);
update_k!(c03_update_pin_info_k_42, 0, 42);
update_k!(c03_update_pin_info_k_43, 0, 43);
update_k!(c03_update_pin_info_k_44, 0, 44);
update_k!(c03_update_pin_info_k_45, 0, 45);
update_k!(c03_update_pin_info_k_46, 0, 46);
update_k!(c03_update_pin_info_k_47, 0, 47);
update_k!(c03_update_pin_info_k_48, 0, 48);
update_k!(c03_update_pin_info_k_49, 0, 49);
update_k!(c03_update_pin_info_k_50, 0, 50);
update_k!(c03_update_pin_info_k_51, 0, 51);
update_k!(c03_update_pin_info_k_52, 0, 52);
update_k!(c03_update_pin_info_k_53, 0, 53);
update_k!(c03_update_pin_info_k_54, 0, 54);
update_k!(c03_update_pin_info_k_55, 0, 55);
update_k!(c03_update_pin_info_k_56, 0, 56);
update_k!(c03_update_pin_info_k_57, 0, 57);
update_k!(c03_update_pin_info_k_58, 0, 58);
update_k!(c03_update_pin_info_k_59, 0, 59);
update_k!(c03_update_pin_info_k_60, 0, 60);
update_k!(c03_update_pin_info_k_61, 0, 61);
update_k!(c03_update_pin_info_k_62, 0, 62);
update_k!(c03_update_pin_info_k_63, 0, 63);
update_k!(c03_update_pin_info_k_64, 1, 0);
update_k!(c03_update_pin_info_k_65, 1, 1);
update_k!(c03_update_pin_info_k_66, 1, 2);
update_k!(c03_update_pin_info_k_67, 1, 3);
update_k!(c03_update_pin_info_k_68, 1, 4);
update_k!(c03_update_pin_info_k_69, 1, 5);
update_k!(c03_update_pin_info_k_70, 1, 6);
update_k!(c03_update_pin_info_k_71, 1, 7);
update_k!(c03_update_pin_info_k_72, 1, 8);
update_k!(c03_update_pin_info_k_73, 1, 9);
update_k!(c03_update_pin_info_k_74, 1, 10);
update_k!(c03_update_pin_info_k_75, 1, 11);
update_k!(c03_update_pin_info_k_76, 1, 12);
update_k!(c03_update_pin_info_k_77, 1, 13);
update_k!(c03_update_pin_info_k_78, 1, 14);
update_k!(c03_update_pin_info_k_79, 1, 15);
update_k!(c03_update_pin_info_k_80, 1, 16);
update_k!(c03_update_pin_info_k_81, 1, 17);
update_k!(c03_update_pin_info_k_82, 1, 18);
update_k!(c03_update_pin_info_k_83, 1, 19);
update_k!(c03_update_pin_info_k_84, 1, 20);
update_k!(c03_update_pin_info_k_85, 1, 21);
update_k!(c03_update_pin_info_k_86, 1, 22);
update_k!(c03_update_pin_info_k_87, 1, 23);
update_k!(c03_update_pin_info_k_88, 1, 24);
update_k!(c03_update_pin_info_k_89, 1, 25);
update_k!(c03_update_pin_info_k_90, 1, 26);
update_k!(c03_update_pin_info_k_91, 1, 27);
update_k!(c03_update_pin_info_k_92, 1, 28);
update_k!(c03_update_pin_info_k_93, 1, 29);
update_k!(c03_update_pin_info_k_94, 1, 30);
update_k!(c03_update_pin_info_k_95, 1, 31);
update_k!(c03_update_pin_info_k_96, 1, 32);
update_k!(c03_update_pin_info_k_97, 1, 33);
update_k!(c03_update_pin_info_k_98, 1, 34);
update_k!(c03_update_pin_info_k_99, 1, 35);
update_k!(c03_update_pin_info_k_100, 1, 36);
update_k!(c03_update_pin_info_k_101, 1, 37);
update_k!(c03_update_pin_info_k_102, 1, 38);
update_k!(c03_update_pin_info_k_103, 1, 39);
update_k!(c03_update_pin_info_k_104, 1, 40);
update_k!(c03_update_pin_info_k_105, 1, 41);
update_k!(c03_update_pin_info_k_106, 1, 42);
update_k!(c03_update_pin_info_k_107, 1, 43);
update_k!(c03_update_pin_info_k_108, 1, 44);
update_k!(c03_update_pin_info_k_109, 1, 45);
update_k!(c03_update_pin_info_k_110, 1, 46);
update_k!(c03_update_pin_info_k_111, 1, 47);
update_k!(c03_update_pin_info_k_112, 1, 48);
update_k!(c03_update_pin_info_k_113, 1, 49);
update_k!(c03_update_pin_info_k_114, 1, 50);
update_k!(c03_update_pin_info_k_115, 1, 51);
update_k!(c03_update_pin_info_k_116, 1, 52);
update_k!(c03_update_pin_info_k_117, 1, 53);
update_k!(c03_update_pin_info_k_118, 1, 54);
update_k!(c03_update_pin_info_k_119, 1, 55);
update_k!(c03_update_pin_info_k_120, 1, 56);
update_k!(c03_update_pin_info_k_121, 1, 57);
update_k!(c03_update_pin_info_k_122, 1, 58);
update_k!(c03_update_pin_info_k_123, 1, 59);
update_k!(c03_update_pin_info_k_124, 1, 60);
update_k!(c03_update_pin_info_k_125, 1, 61);
update_k!(c03_update_pin_info_k_126, 1, 62);
update_k!(c03_update_pin_info_k_127, 1, 63);

/// the x-ray definition of pins/checkers used above equals the plain ray-walking definition
#[kani::proof]
#[kani::unwind(9)]
pub fn c03_reference_pins_equal_ray_walk() {
    let s = any_valid_sboard();
    assert!(pins(&s) == pins_walk(&s));
    let k = s.king_sq(s.turn);
    assert!((checkers(&s) != 0) == attacked_walk(&s, k, 1 - s.turn, s.occ()));
    // the enemy king never gives check in a valid position
    assert!(attacked(&s, k, 1 - s.turn, s.occ()) == attacked_walk(&s, k, 1 - s.turn, s.occ()));
}

/// emptiness of the move list is a free boolean here (its meaning is C01 + C10); the
/// classification must equal the table for every combination
fn stub_legals(_b: &Board) -> chess_movegen::MoveGen {
    let empty: bool = kani::any();
    unsafe { LAST_EMPTY = empty };
    if empty {
        chess_movegen::MoveGen::verif_from_entries(&[], 0, !BitBoard::empty(), 0)
    } else {
        let src = crate::anyv::pos();
        let dst = crate::anyv::pos();
        chess_movegen::MoveGen::verif_from_entries(&[(src, BitBoard::from(dst), kani::any())], 0, !BitBoard::empty(), 0)
    }
}
static mut LAST_EMPTY: bool = false;

#[kani::proof]
#[kani::unwind(4)]
#[kani::stub(chess_movegen::Board::legals, stub_legals)]
pub fn c03_state_classification() {
    use chess_movegen::GameState;
    let s = any_sboard();
    let ck: u64 = kani::any();
    let b = to_board(&s, kani::any(), ck, kani::any());
    let st = b.state();
    let empty = unsafe { LAST_EMPTY };
    let in_check = ck != 0;
    let want = if empty && in_check {
        GameState::CheckMate
    } else if empty || s.half >= 100 {
        GameState::StaleMate // the crate's name for every draw
    } else if in_check {
        GameState::Check
    } else {
        GameState::Running
    };
    assert!(st == want);
    assert!(b.in_check() == in_check);
    kani::cover!(st == GameState::CheckMate);
    kani::cover!(st == GameState::StaleMate && !empty);
    kani::cover!(st == GameState::Check);
    kani::cover!(st == GameState::Running && s.half == 99);
}


