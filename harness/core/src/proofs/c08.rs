//! C08 - slider attack lookup (real magic tables, real index computation) equals square-by-square
//! ray casting for every square and every one of the 2^64 occupancies. One harness per piece and
//! square (square concrete so the magic factor is a constant multiplier); occupancy fully symbolic.
//! Kani's default checks are ON: the table index is bounds-checked and the crate's own
//! `debug_assert!(index < SOLUTIONS.len())` is an assertion.
use crate::spec::geom as g;
use chess_bitboard::{BitBoard, Pos};

macro_rules! slider {
    ($name:ident, $lookup:path, $spec:path, $sq:expr) => {
        #[kani::proof]
        #[kani::unwind(9)]
        pub fn $name() {
            let occ: u64 = kani::any();
            let sq = Pos::from_u8($sq).unwrap();
            let got = $lookup(sq, BitBoard::from_u64(occ)).to_u64();
            assert!(got == $spec($sq, occ));
        }
    };
}
// harness-family: c08_rook_{0..63}
// harness-family: c08_bishop_{0..63}

slider!(c08_rook_0, chess_lookup::rook_moves, g::rook_attacks, 0);
slider!(c08_rook_1, chess_lookup::rook_moves, g::rook_attacks, 1);
slider!(c08_rook_2, chess_lookup::rook_moves, g::rook_attacks, 2);
slider!(c08_rook_3, chess_lookup::rook_moves, g::rook_attacks, 3);
slider!(c08_rook_4, chess_lookup::rook_moves, g::rook_attacks, 4);
slider!(c08_rook_5, chess_lookup::rook_moves, g::rook_attacks, 5);
slider!(c08_rook_6, chess_lookup::rook_moves, g::rook_attacks, 6);
slider!(c08_rook_7, chess_lookup::rook_moves, g::rook_attacks, 7);
slider!(c08_rook_8, chess_lookup::rook_moves, g::rook_attacks, 8);
slider!(c08_rook_9, chess_lookup::rook_moves, g::rook_attacks, 9);
slider!(c08_rook_10, chess_lookup::rook_moves, g::rook_attacks, 10);
slider!(c08_rook_11, chess_lookup::rook_moves, g::rook_attacks, 11);
slider!(c08_rook_12, chess_lookup::rook_moves, g::rook_attacks, 12);
slider!(c08_rook_13, chess_lookup::rook_moves, g::rook_attacks, 13);
slider!(c08_rook_14, chess_lookup::rook_moves, g::rook_attacks, 14);
slider!(c08_rook_15, chess_lookup::rook_moves, g::rook_attacks, 15);
slider!(c08_rook_16, chess_lookup::rook_moves, g::rook_attacks, 16);
slider!(c08_rook_17, chess_lookup::rook_moves, g::rook_attacks, 17);
slider!(c08_rook_18, chess_lookup::rook_moves, g::rook_attacks, 18);
slider!(c08_rook_19, chess_lookup::rook_moves, g::rook_attacks, 19);
slider!(c08_rook_20, chess_lookup::rook_moves, g::rook_attacks, 20);
slider!(c08_rook_21, chess_lookup::rook_moves, g::rook_attacks, 21);
slider!(c08_rook_22, chess_lookup::rook_moves, g::rook_attacks, 22);
slider!(c08_rook_23, chess_lookup::rook_moves, g::rook_attacks, 23);
slider!(c08_rook_24, chess_lookup::rook_moves, g::rook_attacks, 24);
slider!(c08_rook_25, chess_lookup::rook_moves, g::rook_attacks, 25);
slider!(c08_rook_26, chess_lookup::rook_moves, g::rook_attacks, 26);
slider!(c08_rook_27, chess_lookup::rook_moves, g::rook_attacks, 27);
slider!(c08_rook_28, chess_lookup::rook_moves, g::rook_attacks, 28);
slider!(c08_rook_29, chess_lookup::rook_moves, g::rook_attacks, 29);
slider!(c08_rook_30, chess_lookup::rook_moves, g::rook_attacks, 30);
slider!(c08_rook_31, chess_lookup::rook_moves, g::rook_attacks, 31);
slider!(c08_rook_32, chess_lookup::rook_moves, g::rook_attacks, 32);
slider!(c08_rook_33, chess_lookup::rook_moves, g::rook_attacks, 33);
slider!(c08_rook_34, chess_lookup::rook_moves, g::rook_attacks, 34);
slider!(c08_rook_35, chess_lookup::rook_moves, g::rook_attacks, 35);
slider!(c08_rook_36, chess_lookup::rook_moves, g::rook_attacks, 36);
slider!(c08_rook_37, chess_lookup::rook_moves, g::rook_attacks, 37);
slider!(c08_rook_38, chess_lookup::rook_moves, g::rook_attacks, 38);
slider!(c08_rook_39, chess_lookup::rook_moves, g::rook_attacks, 39);
slider!(c08_rook_40, chess_lookup::rook_moves, g::rook_attacks, 40);
slider!(c08_rook_41, chess_lookup::rook_moves, g::rook_attacks, 41);
slider!(c08_rook_42, chess_lookup::rook_moves, g::rook_attacks, 42);
slider!(c08_rook_43, chess_lookup::rook_moves, g::rook_attacks, 43);
slider!(c08_rook_44, chess_lookup::rook_moves, g::rook_attacks, 44);
slider!(c08_rook_45, chess_lookup::rook_moves, g::rook_attacks, 45);
slider!(c08_rook_46, chess_lookup::rook_moves, g::rook_attacks, 46);
slider!(c08_rook_47, chess_lookup::rook_moves, g::rook_attacks, 47);
slider!(c08_rook_48, chess_lookup::rook_moves, g::rook_attacks, 48);
slider!(c08_rook_49, chess_lookup::rook_moves, g::rook_attacks, 49);
slider!(c08_rook_50, chess_lookup::rook_moves, g::rook_attacks, 50);
slider!(c08_rook_51, chess_lookup::rook_moves, g::rook_attacks, 51);
slider!(c08_rook_52, chess_lookup::rook_moves, g::rook_attacks, 52);
slider!(c08_rook_53, chess_lookup::rook_moves, g::rook_attacks, 53);
slider!(c08_rook_54, chess_lookup::rook_moves, g::rook_attacks, 54);
slider!(c08_rook_55, chess_lookup::rook_moves, g::rook_attacks, 55);
slider!(c08_rook_56, chess_lookup::rook_moves, g::rook_attacks, 56);
slider!(c08_rook_57, chess_lookup::rook_moves, g::rook_attacks, 57);
slider!(c08_rook_58, chess_lookup::rook_moves, g::rook_attacks, 58);
slider!(c08_rook_59, chess_lookup::rook_moves, g::rook_attacks, 59);
slider!(c08_rook_60, chess_lookup::rook_moves, g::rook_attacks, 60);
slider!(c08_rook_61, chess_lookup::rook_moves, g::rook_attacks, 61);
slider!(c08_rook_62, chess_lookup::rook_moves, g::rook_attacks, 62);
slider!(c08_rook_63, chess_lookup::rook_moves, g::rook_attacks, 63);
slider!(c08_bishop_0, chess_lookup::bishop_moves, g::bishop_attacks, 0);
slider!(c08_bishop_1, chess_lookup::bishop_moves, g::bishop_attacks, 1);
slider!(c08_bishop_2, chess_lookup::bishop_moves, g::bishop_attacks, 2);
slider!(c08_bishop_3, chess_lookup::bishop_moves, g::bishop_attacks, 3);
slider!(c08_bishop_4, chess_lookup::bishop_moves, g::bishop_attacks, 4);
slider!(c08_bishop_5, chess_lookup::bishop_moves, g::bishop_attacks, 5);
slider!(c08_bishop_6, chess_lookup::bishop_moves, g::bishop_attacks, 6);
slider!(c08_bishop_7, chess_lookup::bishop_moves, g::bishop_attacks, 7);
slider!(c08_bishop_8, chess_lookup::bishop_moves, g::bishop_attacks, 8);
slider!(c08_bishop_9, chess_lookup::bishop_moves, g::bishop_attacks, 9);
slider!(c08_bishop_10, chess_lookup::bishop_moves, g::bishop_attacks, 10);
slider!(c08_bishop_11, chess_lookup::bishop_moves, g::bishop_attacks, 11);
slider!(c08_bishop_12, chess_lookup::bishop_moves, g::bishop_attacks, 12);
slider!(c08_bishop_13, chess_lookup::bishop_moves, g::bishop_attacks, 13);
slider!(c08_bishop_14, chess_lookup::bishop_moves, g::bishop_attacks, 14);
slider!(c08_bishop_15, chess_lookup::bishop_moves, g::bishop_attacks, 15);
slider!(c08_bishop_16, chess_lookup::bishop_moves, g::bishop_attacks, 16);
slider!(c08_bishop_17, chess_lookup::bishop_moves, g::bishop_attacks, 17);
slider!(c08_bishop_18, chess_lookup::bishop_moves, g::bishop_attacks, 18);
slider!(c08_bishop_19, chess_lookup::bishop_moves, g::bishop_attacks, 19);
slider!(c08_bishop_20, chess_lookup::bishop_moves, g::bishop_attacks, 20);
slider!(c08_bishop_21, chess_lookup::bishop_moves, g::bishop_attacks, 21);
slider!(c08_bishop_22, chess_lookup::bishop_moves, g::bishop_attacks, 22);
slider!(c08_bishop_23, chess_lookup::bishop_moves, g::bishop_attacks, 23);
slider!(c08_bishop_24, chess_lookup::bishop_moves, g::bishop_attacks, 24);
slider!(c08_bishop_25, chess_lookup::bishop_moves, g::bishop_attacks, 25);
slider!(c08_bishop_26, chess_lookup::bishop_moves, g::bishop_attacks, 26);
slider!(c08_bishop_27, chess_lookup::bishop_moves, g::bishop_attacks, 27);
slider!(c08_bishop_28, chess_lookup::bishop_moves, g::bishop_attacks, 28);
slider!(c08_bishop_29, chess_lookup::bishop_moves, g::bishop_attacks, 29);
slider!(c08_bishop_30, chess_lookup::bishop_moves, g::bishop_attacks, 30);
slider!(c08_bishop_31, chess_lookup::bishop_moves, g::bishop_attacks, 31);
slider!(c08_bishop_32, chess_lookup::bishop_moves, g::bishop_attacks, 32);
slider!(c08_bishop_33, chess_lookup::bishop_moves, g::bishop_attacks, 33);
slider!(c08_bishop_34, chess_lookup::bishop_moves, g::bishop_attacks, 34);
slider!(c08_bishop_35, chess_lookup::bishop_moves, g::bishop_attacks, 35);
slider!(c08_bishop_36, chess_lookup::bishop_moves, g::bishop_attacks, 36);
slider!(c08_bishop_37, chess_lookup::bishop_moves, g::bishop_attacks, 37);
slider!(c08_bishop_38, chess_lookup::bishop_moves, g::bishop_attacks, 38);
slider!(c08_bishop_39, chess_lookup::bishop_moves, g::bishop_attacks, 39);
slider!(c08_bishop_40, chess_lookup::bishop_moves, g::bishop_attacks, 40);
slider!(c08_bishop_41, chess_lookup::bishop_moves, g::bishop_attacks, 41);
slider!(c08_bishop_42, chess_lookup::bishop_moves, g::bishop_attacks, 42);
slider!(c08_bishop_43, chess_lookup::bishop_moves, g::bishop_attacks, 43);
slider!(c08_bishop_44, chess_lookup::bishop_moves, g::bishop_attacks, 44);
slider!(c08_bishop_45, chess_lookup::bishop_moves, g::bishop_attacks, 45);
slider!(c08_bishop_46, chess_lookup::bishop_moves, g::bishop_attacks, 46);
slider!(c08_bishop_47, chess_lookup::bishop_moves, g::bishop_attacks, 47);
slider!(c08_bishop_48, chess_lookup::bishop_moves, g::bishop_attacks, 48);
slider!(c08_bishop_49, chess_lookup::bishop_moves, g::bishop_attacks, 49);
slider!(c08_bishop_50, chess_lookup::bishop_moves, g::bishop_attacks, 50);
slider!(c08_bishop_51, chess_lookup::bishop_moves, g::bishop_attacks, 51);
slider!(c08_bishop_52, chess_lookup::bishop_moves, g::bishop_attacks, 52);
slider!(c08_bishop_53, chess_lookup::bishop_moves, g::bishop_attacks, 53);
slider!(c08_bishop_54, chess_lookup::bishop_moves, g::bishop_attacks, 54);
slider!(c08_bishop_55, chess_lookup::bishop_moves, g::bishop_attacks, 55);
slider!(c08_bishop_56, chess_lookup::bishop_moves, g::bishop_attacks, 56);
slider!(c08_bishop_57, chess_lookup::bishop_moves, g::bishop_attacks, 57);
slider!(c08_bishop_58, chess_lookup::bishop_moves, g::bishop_attacks, 58);
slider!(c08_bishop_59, chess_lookup::bishop_moves, g::bishop_attacks, 59);
slider!(c08_bishop_60, chess_lookup::bishop_moves, g::bishop_attacks, 60);
slider!(c08_bishop_61, chess_lookup::bishop_moves, g::bishop_attacks, 61);
slider!(c08_bishop_62, chess_lookup::bishop_moves, g::bishop_attacks, 62);
slider!(c08_bishop_63, chess_lookup::bishop_moves, g::bishop_attacks, 63);

/// thorough tier: one query per piece with the square symbolic as well (64 x 2^64 at once) - an
/// independent cross-check of the 128 per-square queries.
#[kani::proof]
#[kani::unwind(9)]
pub fn c08_t_rook_any_square() {
    let occ: u64 = kani::any();
    let s: u8 = kani::any();
    kani::assume(s < 64);
    let got = chess_lookup::rook_moves(Pos::from_u8(s).unwrap(), BitBoard::from_u64(occ)).to_u64();
    assert!(got == g::rook_attacks(s, occ));
}
#[kani::proof]
#[kani::unwind(9)]
pub fn c08_t_bishop_any_square() {
    let occ: u64 = kani::any();
    let s: u8 = kani::any();
    kani::assume(s < 64);
    let got = chess_lookup::bishop_moves(Pos::from_u8(s).unwrap(), BitBoard::from_u64(occ)).to_u64();
    assert!(got == g::bishop_attacks(s, occ));
}

/// reachability witness: the lookup really depends on the occupancy (a blocked and an open ray)
#[kani::proof]
#[kani::unwind(9)]
pub fn c08_witness() {
    let occ: u64 = kani::any();
    let got = chess_lookup::rook_moves(Pos::A1, BitBoard::from_u64(occ)).to_u64();
    kani::cover!(got == 0x0101010101010100 | 0xfe);
    kani::cover!(got == 0x102);
    kani::cover!(chess_lookup::bishop_moves(Pos::D4, BitBoard::from_u64(occ)).count() == 4);
}
