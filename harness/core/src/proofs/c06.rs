//! C06 - FEN parsing is total and admits only playable positions; C05 - FEN text and board are
//! inverse representations.
//!
//! Inputs are STRUCTURED so that lengths and field offsets are concrete while contents stay
//! symbolic (ten fully symbolic bytes through the hand-written slice parser did not finish in
//! 400 s - the 64-square loop with a 14-way match forks on every byte):
//!  * validate / build(): a fully symbolic board through the builder (no text involved);
//!  * parser, accept <=> valid and decode == board: a symbolic board rendered by the harness as
//!    an EXPANDED FEN (64 piece-or-'1' bytes + 7 '/'), rights subset and en-passant presence
//!    fixed per harness so every offset is a constant;
//!  * totality: arbitrary bytes (symbolic contents AND length) as a whole input, as the first
//!    rank followed by a fixed tail, and as the tail after a fixed placement - Kani's default
//!    checks on (overflow of the clock arithmetic, slice bounds, unwraps);
//!  * writer: real `Display for Board` into a fixed byte sink, occupancy shape / rights / clock
//!    digit counts fixed per harness, piece identities, colours, side, clocks symbolic; then the
//!    real parser on the produced bytes.
use super::common::*;
use crate::anyv;
use crate::conv::*;
use crate::spec::rules::*;
use chess_bitboard::{BitBoard, Color, File, Piece, Pos};
use chess_movegen::fen::{parse_fen, ParseFenError};
use chess_movegen::{Board, BoardBuilder, BoardValidationError};

/// C06's list, verbatim (no "no pawn on the last rank" restriction here): what an accepted
/// position must satisfy, and - for the builder / validate - what suffices to be accepted
pub fn v0(b: &SBoard) -> bool {
    let them = 1 - b.turn;
    b.partition_ok()
        && b.of(0, KING).count_ones() == 1
        && b.of(1, KING).count_ones() == 1
        && b.pieces[KING as usize].count_ones() == 2
        && b.colors[0].count_ones() <= 16
        && b.colors[1].count_ones() <= 16
        && rights_ok(b)
        && ep_ok(b)
        && !attacked(b, b.king_sq(them), b.turn, b.occ())
}

// ---------------------------------------------------------------------------- validate / build

/// build() accepts exactly the boards satisfying C06's list, returns the builder's fields
/// unchanged, and reports the documented error kind
/// the query is partitioned (run in parallel): no exactly-one-king-each; kings fine but a side has
/// more than 16 men; kings and counts fine (en-passant, castling rights, check) x side to move x
/// en-passant file present or not
#[kani::proof]
#[kani::unwind(10)]
#[kani::stub(l_between, fst::between)]
#[kani::stub(l_rook_moves, fst::rook_moves)]
#[kani::stub(l_bishop_moves, fst::bishop_moves)]
#[kani::stub(l_rook_rays, fst::rook_rays)]
#[kani::stub(l_bishop_rays, fst::bishop_rays)]
#[kani::stub(l_knight_moves, fst::knight_moves)]
#[kani::stub(l_king_moves, fst::king_moves)]
#[kani::stub(l_pawn_attacks_moves, fst::pawn_attacks_moves)]
pub fn c06_build_accepts_exactly_playable_positions_kings() {
    body_build(0)
}
#[kani::proof]
#[kani::unwind(10)]
#[kani::stub(l_between, fst::between)]
#[kani::stub(l_rook_moves, fst::rook_moves)]
#[kani::stub(l_bishop_moves, fst::bishop_moves)]
#[kani::stub(l_rook_rays, fst::rook_rays)]
#[kani::stub(l_bishop_rays, fst::bishop_rays)]
#[kani::stub(l_knight_moves, fst::knight_moves)]
#[kani::stub(l_king_moves, fst::king_moves)]
#[kani::stub(l_pawn_attacks_moves, fst::pawn_attacks_moves)]
pub fn c06_build_accepts_exactly_playable_positions_counts() {
    body_build(1)
}
#[kani::proof]
#[kani::unwind(10)]
#[kani::stub(l_between, fst::between)]
#[kani::stub(l_rook_moves, fst::rook_moves)]
#[kani::stub(l_bishop_moves, fst::bishop_moves)]
#[kani::stub(l_rook_rays, fst::rook_rays)]
#[kani::stub(l_bishop_rays, fst::bishop_rays)]
#[kani::stub(l_knight_moves, fst::knight_moves)]
#[kani::stub(l_king_moves, fst::king_moves)]
#[kani::stub(l_pawn_attacks_moves, fst::pawn_attacks_moves)]
pub fn c06_build_accepts_exactly_playable_positions_rules_w() {
    body_build(2)
}
#[kani::proof]
#[kani::unwind(10)]
#[kani::stub(l_between, fst::between)]
#[kani::stub(l_rook_moves, fst::rook_moves)]
#[kani::stub(l_bishop_moves, fst::bishop_moves)]
#[kani::stub(l_rook_rays, fst::rook_rays)]
#[kani::stub(l_bishop_rays, fst::bishop_rays)]
#[kani::stub(l_knight_moves, fst::knight_moves)]
#[kani::stub(l_king_moves, fst::king_moves)]
#[kani::stub(l_pawn_attacks_moves, fst::pawn_attacks_moves)]
pub fn c06_build_accepts_exactly_playable_positions_rules_b() {
    body_build(3)
}
#[kani::proof]
#[kani::unwind(10)]
#[kani::stub(l_between, fst::between)]
#[kani::stub(l_rook_moves, fst::rook_moves)]
#[kani::stub(l_bishop_moves, fst::bishop_moves)]
#[kani::stub(l_rook_rays, fst::rook_rays)]
#[kani::stub(l_bishop_rays, fst::bishop_rays)]
#[kani::stub(l_knight_moves, fst::knight_moves)]
#[kani::stub(l_king_moves, fst::king_moves)]
#[kani::stub(l_pawn_attacks_moves, fst::pawn_attacks_moves)]
pub fn c06_build_accepts_exactly_playable_positions_rules_w_ep() {
    body_build(4)
}
#[kani::proof]
#[kani::unwind(10)]
#[kani::stub(l_between, fst::between)]
#[kani::stub(l_rook_moves, fst::rook_moves)]
#[kani::stub(l_bishop_moves, fst::bishop_moves)]
#[kani::stub(l_rook_rays, fst::rook_rays)]
#[kani::stub(l_bishop_rays, fst::bishop_rays)]
#[kani::stub(l_knight_moves, fst::knight_moves)]
#[kani::stub(l_king_moves, fst::king_moves)]
#[kani::stub(l_pawn_attacks_moves, fst::pawn_attacks_moves)]
pub fn c06_build_accepts_exactly_playable_positions_rules_b_ep() {
    body_build(5)
}
fn body_build(part: u8) {
    let s = any_sboard();
    // the builder cannot assemble overlapping sets (place() refuses an occupied square)
    kani::assume(s.partition_ok());
    let h: u64 = kani::any();
    let b = to_board(&s, kani::any(), kani::any(), h);
    let kings_ok = s.of(0, KING).count_ones() == 1 && s.of(1, KING).count_ones() == 1;
    let counts_ok = s.colors[0].count_ones() <= 16 && s.colors[1].count_ones() <= 16;
    // parts 2..5: kings and counts fine, split by side to move and presence of an en-passant file
    kani::assume(match part {
        0 => !kings_ok,
        1 => kings_ok && !counts_ok,
        _ => kings_ok && counts_ok && s.turn == (part & 1) && s.ep.is_some() == (part >= 4),
    });
    // bound of the from-scratch pin loop that runs on acceptance (C03 decides its result);
    // stated BEFORE the call so that the loop's unwinding assertion sees it
    if kings_ok {
        let k = s.king_sq(s.turn);
        let them = s.colors[(1 - s.turn) as usize];
        let cand = ((s.pieces[BISHOP as usize] | s.pieces[QUEEN as usize]) & them & crate::spec::fast::u_bishop_rays(k))
            | ((s.pieces[ROOK as usize] | s.pieces[QUEEN as usize]) & them & crate::spec::fast::u_rook_rays(k));
        kani::assume(cand.count_ones() <= 8);
    }
    let r = BoardBuilder::verif_from_board(b).build();
    let want = v0(&s);
    #[cfg(cv_replay)]
    if r.is_ok() != want {
        crate::report::dump("C06 build", &s, None);
        println!("CEX[C06 build] accepted={} but C06's list says playable={}", r.is_ok(), want);
    }
    match r {
        Ok(nb) => {
            assert!(want);
            assert!(to_sboard(&nb).same(&s));
            assert!(nb.verif_parts().zobrist == h);
        }
        Err(e) => {
            assert!(!want);
            // error kinds, in the order validate() tests them
            let too_many = s.colors[0].count_ones() > 16 || s.colors[1].count_ones() > 16;
            if !kings_ok {
                assert!(e == BoardValidationError::MissingKings);
            } else if too_many {
                assert!(e == BoardValidationError::TooManyPieces);
            } else if !ep_ok(&s) {
                assert!(e == BoardValidationError::InvalidEnpassant);
            } else if !rights_ok(&s) {
                assert!(e == BoardValidationError::InvalidCastleRights);
            } else {
                assert!(e == BoardValidationError::OpponentInCheck);
            }
        }
    }
    kani::cover!(want || part < 2);
    kani::cover!(!want);
}

// ------------------------------------------------------------------------------- expanded FEN

const LETTERS: [u8; 6] = [b'p', b'n', b'b', b'r', b'q', b'k'];

/// byte for square q: piece letter (upper case = White) or '1'
fn square_byte(s: &SBoard, q: u8) -> u8 {
    match (s.color_at(q), s.piece_at(q)) {
        (Some(c), Some(p)) => {
            let l = LETTERS[p as usize];
            if c == 0 {
                l - 32
            } else {
                l
            }
        }
        _ => b'1',
    }
}

pub const XLEN: usize = 71 + 3 + 4 + 1 + 2 + 1 + 4 + 1 + 4; // longest expanded text

/// expanded FEN of s with 4-digit clocks; rights subset and en-passant presence are CONSTANTS of
/// the caller (so the length is a constant too). Returns (bytes, length).
fn expanded_fen(s: &SBoard, half: [u8; 4], full: [u8; 4]) -> ([u8; XLEN], usize) {
    let mut out = [0u8; XLEN];
    let mut n = 0usize;
    let mut r = 8u8;
    while r > 0 {
        r -= 1;
        let mut f = 0u8;
        while f < 8 {
            out[n] = square_byte(s, r * 8 + f);
            n += 1;
            f += 1;
        }
        if r > 0 {
            out[n] = b'/';
            n += 1;
        }
    }
    out[n] = b' ';
    out[n + 1] = if s.turn == 0 { b'w' } else { b'b' };
    out[n + 2] = b' ';
    n += 3;
    if s.rights == 0 {
        out[n] = b'-';
        n += 1;
    } else {
        if s.rights & WK != 0 {
            out[n] = b'K';
            n += 1;
        }
        if s.rights & WQ != 0 {
            out[n] = b'Q';
            n += 1;
        }
        if s.rights & BK != 0 {
            out[n] = b'k';
            n += 1;
        }
        if s.rights & BQ != 0 {
            out[n] = b'q';
            n += 1;
        }
    }
    out[n] = b' ';
    n += 1;
    match s.ep {
        Some(f) => {
            out[n] = b'a' + f;
            out[n + 1] = if s.turn == 0 { b'6' } else { b'3' };
            n += 2;
        }
        None => {
            out[n] = b'-';
            n += 1;
        }
    }
    out[n] = b' ';
    n += 1;
    let mut i = 0;
    while i < 4 {
        out[n] = half[i];
        n += 1;
        i += 1;
    }
    out[n] = b' ';
    n += 1;
    let mut i = 0;
    while i < 4 {
        out[n] = full[i];
        n += 1;
        i += 1;
    }
    (out, n)
}

/// xor of the piece keys in the order the parser meets the squares (rank 8 first, files a..h).
/// The key function is stubbed by an injective abstract function in these queries (see c02.rs for
/// why); the real table's properties are decided in c04.rs.
fn hash_in_reading_order(s: &SBoard) -> u64 {
    let mut h = 0u64;
    let mut r = 8u8;
    while r > 0 {
        r -= 1;
        let mut f = 0u8;
        while f < 8 {
            let q = r * 8 + f;
            if let (Some(c), Some(p)) = (s.color_at(q), s.piece_at(q)) {
                h ^= chess_lookup::zobrist(pos(q), piece(p), color(c));
            }
            f += 1;
        }
    }
    h
}
fn abstract_key(pos: Pos, piece: Piece, color: Color) -> u64 {
    0x9e3779b97f4a7c15u64.wrapping_mul(1 + pos as u64 + 64 * piece as u64 + 384 * color as u64)
}
use chess_lookup::zobrist as l_zobrist;
use chess_lookup::between as l_between;
use chess_lookup::bishop_moves as l_bishop_moves;
use chess_lookup::bishop_rays as l_bishop_rays;
use chess_lookup::king_moves as l_king_moves;
use chess_lookup::knight_moves as l_knight_moves;
use chess_lookup::pawn_attacks_moves as l_pawn_attacks_moves;
use chess_lookup::rook_moves as l_rook_moves;
use chess_lookup::rook_rays as l_rook_rays;
use crate::spec::fast as fst;

fn any_digits() -> ([u8; 4], u16) {
    let mut d = [0u8; 4];
    let mut v = 0u16;
    let mut i = 0;
    while i < 4 {
        let x: u8 = kani::any();
        kani::assume(x < 10);
        d[i] = b'0' + x;
        v = v * 10 + x as u16;
        i += 1;
    }
    (d, v)
}

/// parse(expanded text of B) is Ok exactly when B satisfies C06's list, and then every field read
/// back equals B and the hash is the xor of the keys in reading order. Shape per harness: TWO
/// squares of rank `rank` (files d and e) are symbolic - each empty or any of the twelve pieces -
/// the kings stand on fixed squares off that rank (an extra king may appear on a symbolic square:
/// such boards must be refused), the rest is empty; side to move symbolic; an en-passant file d or
/// e is offered when the rank is the one a double-stepped pawn stands on. (More symbolic bytes in
/// the placement field are out of reach: the parser's file counter becomes symbolic and its
/// 64-iteration loop forks on every byte - measured: 8 symbolic squares exceed 12 GB.)
fn body_parse_rank(rank: u8) {
    // the text length must be a constant for the parser's slice patterns (a symbolic length makes
    // every pattern fork): the en-passant field's presence is therefore enumerated concretely
    if rank == 4 || rank == 3 {
        body_parse_rank_ep(rank, true);
    }
    body_parse_rank_ep(rank, false);
}
fn body_parse_rank_ep(rank: u8, present: bool) {
    let mut s = SBoard { colors: [0, 0], pieces: [0; 6], turn: 0, rights: 0, ep: None, half: 0, full: 0 };
    // fixed kings: a1 / h8, moved to ranks 2 / 7 when their rank is the symbolic one
    let wk: u8 = if rank == 0 { 8 } else { 0 };
    let bk: u8 = if rank == 7 { 55 } else { 63 };
    s.colors[0] |= bit(wk);
    s.colors[1] |= bit(bk);
    s.pieces[KING as usize] |= bit(wk) | bit(bk);
    let mut f = 3u8;
    while f < 5 {
        let q = rank * 8 + f;
        let code: u8 = kani::any();
        kani::assume(code < 13);
        if code < 12 {
            s.colors[(code / 6) as usize] |= bit(q);
            s.pieces[(code % 6) as usize] |= bit(q);
        }
        f += 1;
    }
    s.turn = if rank == 4 {
        0
    } else if rank == 3 {
        1
    } else {
        let t: u8 = kani::any();
        kani::assume(t < 2);
        t
    };
    if present {
        s.ep = Some(if kani::any() { 3 } else { 4 });
    }
    let (hd, hv) = any_digits();
    let (fd, fv) = any_digits();
    s.half = hv;
    s.full = fv;
    let (bytes, _n) = expanded_fen(&s, hd, fd);
    // 71 placement + " w " + "-" + " " + ep + " " + 4 + " " + 4
    let n = 71 + 3 + 1 + 1 + if present { 2 } else { 1 } + 1 + 4 + 1 + 4;
    assert!(_n == n);
    let r = parse_fen(&bytes[..n]);
    let want = v0(&s);
    #[cfg(cv_replay)]
    if r.is_ok() != want {
        crate::report::dump("C06 parse", &s, None);
        println!("CEX[C06 parse] text={:?} accepted={} but C06's list says playable={}", core::str::from_utf8(&bytes[..n]), r.is_ok(), want);
    }
    match r {
        Ok(b) => {
            assert!(want);
            assert!(to_sboard(&b).same(&s));
            // the piece hash is the xor of the keys of the pieces, accumulated in reading order
            assert!(b.verif_parts().zobrist == hash_in_reading_order(&s));
            let p = b.verif_parts();
            assert!(p.checkers.to_u64() == checkers(&s) && p.pinned.to_u64() == pins(&s));
        }
        Err(e) => {
            assert!(!want);
            // a well-formed text is only ever refused by validation
            assert!(matches!(e, ParseFenError::BoardValidation(_)));
        }
    }
    kani::cover!(want);
    kani::cover!(!want);
}
macro_rules! parse_rank {
    ($name:ident, $rank:expr) => {
        #[kani::proof]
        #[kani::unwind(10)]
        #[kani::stub(l_zobrist, abstract_key)]
        pub fn $name() {
            body_parse_rank($rank)
        }
    };
}
// (family c06_parse_rank_k_* is not registered: infeasible, see DESIGN.md)
parse_rank!(x06_parse_rank_0, 0);
parse_rank!(x06_parse_rank_1, 1);
parse_rank!(x06_parse_rank_2, 2);
parse_rank!(x06_parse_rank_3, 3);
parse_rank!(x06_parse_rank_4, 4);
parse_rank!(x06_parse_rank_5, 5);
parse_rank!(x06_parse_rank_6, 6);
parse_rank!(x06_parse_rank_7, 7);

/// castling field: kings on e1/e8, each of the four corner squares holds its home rook or is
/// empty (one symbolic corner at a time), every subset of the rights letters (enumerated concretely, so that the text
/// length is a constant): accepted exactly when each claimed right has its rook, and the rights
/// read back are the ones written
fn castling_field(rights: u8, sym_corner: usize) {
    let mut s = SBoard { colors: [0, 0], pieces: [0; 6], turn: 0, rights, ep: None, half: 12, full: 34 };
    s.colors[0] |= bit(4);
    s.colors[1] |= bit(60);
    s.pieces[KING as usize] |= bit(4) | bit(60);
    let corners = [(0u8, 0usize), (7, 0), (56, 1), (63, 1)];
    let mut i = 0;
    while i < 4 {
        let (q, c) = corners[i];
        // one corner per call holds its home rook or not (symbolic); the others hold theirs
        let present: bool = if i == sym_corner { kani::any() } else { true };
        if present {
            s.colors[c] |= bit(q);
            s.pieces[ROOK as usize] |= bit(q);
        }
        i += 1;
    }
    let t: u8 = kani::any();
    kani::assume(t < 2);
    s.turn = t;
    let (bytes, _n) = expanded_fen(&s, [b'0', b'0', b'1', b'2'], [b'0', b'0', b'3', b'4']);
    let letters = if rights == 0 { 1 } else { rights.count_ones() as usize };
    let n = 71 + 3 + letters + 1 + 1 + 1 + 4 + 1 + 4;
    assert!(_n == n);
    let r = parse_fen(&bytes[..n]);
    let want = v0(&s);
    match r {
        Ok(b) => {
            assert!(want);
            assert!(to_sboard(&b).same(&s));
        }
        Err(_) => assert!(!want),
    }
}
#[kani::proof]
#[kani::unwind(17)]
#[kani::stub(l_zobrist, abstract_key)]
pub fn x06_parse_castling_field() {
    let mut rights = 0u8;
    while rights < 16 {
        let mut corner = 0usize;
        while corner < 4 {
            castling_field(rights, corner);
            corner += 1;
        }
        rights += 1;
    }
}

// ---------------------------------------------------------------------------------- totality
// Kani's default checks are ON for these (group without the no-check flags).

fn accepted_is_playable(r: &Result<Board, ParseFenError>) {
    if let Ok(b) = r {
        let s = to_sboard(b);
        assert!(s.partition_ok());
        assert!(s.of(0, KING).count_ones() == 1 && s.of(1, KING).count_ones() == 1);
        assert!(s.colors[0].count_ones() <= 16 && s.colors[1].count_ones() <= 16);
        assert!(rights_ok(&s) && ep_ok(&s));
    }
}

/// every byte string of every length 0..=2 as the whole input: returns (an error), never panics.
/// (Lengths are enumerated concretely: a symbolic slice length makes every slice pattern of the
/// parser fork and the query does not finish.)
#[kani::proof]
#[kani::unwind(7)]
pub fn x06_total_on_short_inputs() {
    let bytes: [u8; 2] = kani::any();
    let mut n = 0usize;
    while n <= 2 {
        let r = parse_fen(&bytes[..n]);
        // two bytes cannot describe 64 squares plus five more fields
        assert!(r.is_err());
        n += 1;
    }
}

fn first_rank(head: [u8; 3], n: usize) {
    const TAIL: &[u8] = b"/8/8/8/8/8/8/4K2k w - - 0 1";
    let mut buf = [0u8; 3 + TAIL.len()];
    let mut i = 0;
    while i < n {
        buf[i] = head[i];
        i += 1;
    }
    let mut j = 0;
    while j < TAIL.len() {
        buf[n + j] = TAIL[j];
        j += 1;
    }
    let r = parse_fen(&buf[..n + TAIL.len()]);
    accepted_is_playable(&r);
}
/// arbitrary bytes as the FIRST RANK (every length 0..=2, symbolic contents) followed by a
/// fixed rest: runs of digits, stray '/' and ' ', bad letters, overlong ranks
#[kani::proof]
#[kani::unwind(40)]
pub fn x06_total_on_arbitrary_first_rank() {
    let head: [u8; 3] = kani::any();
    first_rank(head, 0);
    first_rank(head, 1);
    first_rank(head, 2);
}

fn tail_after_placement(tail: [u8; 6], n: usize) {
    const HEAD: &[u8] = b"4k3/8/8/8/8/8/8/4K3";
    let mut buf = [0u8; HEAD.len() + 6];
    let mut j = 0;
    while j < HEAD.len() {
        buf[j] = HEAD[j];
        j += 1;
    }
    let mut i = 0;
    while i < n {
        buf[HEAD.len() + i] = tail[i];
        i += 1;
    }
    let r = parse_fen(&buf[..HEAD.len() + n]);
    accepted_is_playable(&r);
    if let Ok(b) = &r {
        // two bare kings: no rights, no en-passant can be accepted
        let s = to_sboard(b);
        assert!(s.rights == 0 && s.ep.is_none());
        assert!(s.half <= 9999 && s.full <= 9999);
    }
}
/// arbitrary bytes AFTER a fixed placement (every length 0..=6): side, rights, en-passant
/// square, clocks - the error arms of those fields
#[kani::proof]
#[kani::unwind(32)]
pub fn c06_total_on_arbitrary_tail() {
    let tail: [u8; 6] = kani::any();
    let mut n = 0usize;
    while n <= 6 {
        tail_after_placement(tail, n);
        n += 1;
    }
}

fn clock_field(tail: [u8; 5], n: usize) {
    const HEAD: &[u8] = b"4k3/8/8/8/8/8/8/4K3 w - - 7 ";
    let mut buf = [0u8; HEAD.len() + 5];
    let mut j = 0;
    while j < HEAD.len() {
        buf[j] = HEAD[j];
        j += 1;
    }
    // reference: the separator may be several spaces; then 1-4 decimal digits; then end of input
    let mut i = 0;
    let mut in_spaces = true;
    let mut ndigits = 0usize;
    let mut all_digits = true;
    let mut value: u32 = 0;
    while i < n {
        buf[HEAD.len() + i] = tail[i];
        if in_spaces && tail[i] == b' ' {
            // still in the separator
        } else {
            in_spaces = false;
            all_digits &= tail[i] >= b'0' && tail[i] <= b'9';
            value = value * 10 + (tail[i].wrapping_sub(b'0')) as u32;
            ndigits += 1;
        }
        i += 1;
    }
    let r = parse_fen(&buf[..HEAD.len() + n]);
    let want_ok = all_digits && ndigits >= 1 && ndigits <= 4;
    assert!(r.is_ok() == want_ok);
    if let Ok(b) = r {
        assert!(b.full_move_clock() as u32 == value && b.half_move_clock() == 7);
    }
}
/// the clock field: every string of 1..=5 symbolic bytes after a fixed prefix; accepted exactly
/// for 1-4 decimal digits (then end of input), value decoded exactly (no wrap-around of the u16)
#[kani::proof]
#[kani::unwind(32)]
pub fn c06_clock_field_exact() {
    let tail: [u8; 5] = kani::any();
    let mut n = 1usize;
    while n <= 5 {
        clock_field(tail, n);
        n += 1;
    }
}

/// [lo, hi) = the bytes of t[..n] without leading and trailing spaces (n <= 4; written with
/// constant trip counts so that the loops cost nothing to unwind)
fn trim_spaces(t: &[u8], n: usize) -> (usize, usize) {
    let mut lo = 0usize;
    let mut in_lead = true;
    let mut i = 0usize;
    while i < 4 {
        if i < n && in_lead && t[i] == b' ' {
            lo = i + 1;
        } else {
            in_lead = false;
        }
        i += 1;
    }
    let mut hi = n;
    let mut in_trail = true;
    let mut k = 0usize;
    while k < 4 {
        // position n-1-k, scanning from the end
        if k < n {
            let p = n - 1 - k;
            if in_trail && p >= lo && t[p] == b' ' {
                hi = p;
            } else {
                in_trail = false;
            }
        }
        k += 1;
    }
    if hi < lo {
        hi = lo;
    }
    (lo, hi)
}
fn ep_field(tail: [u8; 2], n: usize, black_to_move: bool) {
    // a pawn of the side that just moved on EVERY file of its double-step rank, so that every
    // well-formed en-passant square is a valid one
    const HEAD_B: &[u8] = b"4k3/8/8/8/PPPPPPPP/8/8/4K3 b - ";
    const HEAD_W: &[u8] = b"4k3/8/8/pppppppp/8/8/8/4K3 w - ";
    const TAIL: &[u8] = b" 0 1";
    let head = if black_to_move { HEAD_B } else { HEAD_W };
    let mut buf = [0u8; 31 + 2 + 4];
    let mut j = 0;
    while j < head.len() {
        buf[j] = head[j];
        j += 1;
    }
    let mut i = 0;
    while i < n {
        buf[head.len() + i] = tail[i];
        i += 1;
    }
    let mut k = 0;
    while k < TAIL.len() {
        buf[head.len() + n + k] = TAIL[k];
        k += 1;
    }
    let r = parse_fen(&buf[..head.len() + n + TAIL.len()]);
    let rank = if black_to_move { b'3' } else { b'6' };
    // reference: fields are separated by one OR MORE spaces (the parser is lenient there), so
    // spaces around the field belong to the separators; what is left must be "-" or file + rank
    let (lo, hi) = trim_spaces(&tail, n);
    let dash = hi - lo == 1 && tail[lo] == b'-';
    let square = hi - lo == 2 && tail[lo] >= b'a' && tail[lo] <= b'h' && tail[lo + 1] == rank;
    assert!(r.is_ok() == (dash || square));
    if let Ok(b) = r {
        let s = to_sboard(&b);
        assert!(s.ep == if dash { None } else { Some(tail[lo] - b'a') });
        assert!(s.turn == black_to_move as u8);
    }
}
/// the en-passant field: every 1- and 2-byte string, for either side to move, on a board where
/// every file has a pawn that may just have double-stepped: accepted exactly for "-" and for
/// file a..h + the capture rank of the side to move, and decoded to that file
#[kani::proof]
#[kani::unwind(40)]
pub fn c06_en_passant_field_exact() {
    let tail: [u8; 2] = kani::any();
    ep_field(tail, 1, true);
    ep_field(tail, 2, true);
    ep_field(tail, 1, false);
    ep_field(tail, 2, false);
}

fn castling_letters(tail: [u8; 4], n: usize) {
    const HEAD: &[u8] = b"r3k2r/8/8/8/8/8/8/R3K2R w ";
    const TAIL: &[u8] = b" - 0 1";
    let mut buf = [0u8; 26 + 4 + 6];
    let mut j = 0;
    while j < HEAD.len() {
        buf[j] = HEAD[j];
        j += 1;
    }
    let mut i = 0;
    while i < n {
        buf[HEAD.len() + i] = tail[i];
        i += 1;
    }
    let mut k = 0;
    while k < TAIL.len() {
        buf[HEAD.len() + n + k] = TAIL[k];
        k += 1;
    }
    let r = parse_fen(&buf[..HEAD.len() + n + TAIL.len()]);
    // reference: spaces around the field belong to the separators (lenient parser); what is left
    // is "-" alone, or a non-empty subsequence of K Q k q in that order
    let order = [b'K', b'Q', b'k', b'q'];
    let mut rights = 0u8;
    let mut pos = 0usize; // next letter of `order` that may still appear
    let mut ok = true;
    let (lo, hi) = trim_spaces(&tail, n);
    let mut i = 0usize;
    while i < 4 {
        if i >= lo && i < hi {
            let mut matched = false;
            let mut o = 0usize;
            while o < 4 {
                if !matched && o >= pos && tail[i] == order[o] {
                    rights |= 1 << o;
                    pos = o + 1;
                    matched = true;
                }
                o += 1;
            }
            ok &= matched;
        }
        i += 1;
    }
    let dash = hi - lo == 1 && tail[lo] == b'-';
    let want = dash || (ok && hi > lo);
    assert!(r.is_ok() == want);
    if let Ok(b) = r {
        // bit order of the rights set: K, Q, k, q
        assert!(to_sboard(&b).rights == if dash { 0 } else { rights });
    }
}
/// the castling field: every string of 1..=4 bytes on a board with all four rights available:
/// accepted exactly for "-" and for the non-empty subsequences of KQkq, decoded to that set
#[kani::proof]
#[kani::unwind(40)]
pub fn c06_castling_field_exact() {
    let tail: [u8; 4] = kani::any();
    castling_letters(tail, 1);
    castling_letters(tail, 2);
    castling_letters(tail, 3);
    castling_letters(tail, 4);
}

/// the one-token decoder of the placement field, for EVERY first byte (and any following bytes):
/// the twelve piece letters decode to their (colour, piece) and consume one byte, '1'..'8' to a
/// run of that many empty squares and consume one byte, everything else (also the empty string)
/// decodes to nothing and consumes nothing
#[kani::proof]
pub fn c06_placement_token_decoder_exact() {
    let bytes: [u8; 3] = kani::any();
    let n: usize = kani::any();
    kani::assume(n <= 3);
    let (out, used) = chess_movegen::fen::verif_parse_piece(&bytes[..n]);
    let b = bytes[0];
    let mut want: Option<Result<(u8, u8), u8>> = None;
    if n >= 1 {
        let mut p = 0u8;
        while p < 6 {
            if b == LETTERS[p as usize] {
                want = Some(Ok((1, p)));
            }
            if b == LETTERS[p as usize] - 32 {
                want = Some(Ok((0, p)));
            }
            p += 1;
        }
        if b >= b'1' && b <= b'8' {
            want = Some(Err(b - b'0'));
        }
    }
    let got = match out {
        Some(Ok((c, p))) => Some(Ok((c as u8, p as u8))),
        Some(Err(d)) => Some(Err(d)),
        None => None,
    };
    assert!(got == want);
    assert!(used == if want.is_some() { 1 } else { 0 });
    kani::cover!(matches!(want, Some(Err(8))));
    kani::cover!(matches!(want, Some(Ok((1, 5)))));
}

/// reference decoder of a canonical FEN's placement + side (concrete texts only)
fn ref_decode(text: &[u8]) -> SBoard {
    let mut s = SBoard { colors: [0, 0], pieces: [0; 6], turn: 0, rights: 0, ep: None, half: 0, full: 0 };
    let mut r = 7i8;
    let mut f = 0i8;
    let mut i = 0usize;
    while i < text.len() && text[i] != b' ' {
        let b = text[i];
        if b == b'/' {
            r -= 1;
            f = 0;
        } else if b >= b'1' && b <= b'8' {
            f += (b - b'0') as i8;
        } else {
            let q = (r * 8 + f) as u8;
            let mut p = 0u8;
            while p < 6 {
                if b == LETTERS[p as usize] {
                    s.colors[1] |= bit(q);
                    s.pieces[p as usize] |= bit(q);
                }
                if b == LETTERS[p as usize] - 32 {
                    s.colors[0] |= bit(q);
                    s.pieces[p as usize] |= bit(q);
                }
                p += 1;
            }
            f += 1;
        }
        i += 1;
    }
    s.turn = if text[i + 1] == b'w' { 0 } else { 1 };
    s
}
fn concrete_text(text: &[u8]) {
    let b = parse_fen(text).unwrap();
    let got = to_sboard(&b);
    let want = ref_decode(text);
    assert!(got.same_placement(&want) && got.turn == want.turn);
    assert!(b.verif_parts().zobrist == spec_piece_hash(&got));
    let p = b.verif_parts();
    assert!(p.checkers.to_u64() == checkers(&got) && p.pinned.to_u64() == pins(&got));
}
/// the placement loop on concrete canonical texts with every run length 1..8, runs at the start,
/// middle and end of a rank, full and empty ranks (the loop's counters are not reachable with
/// symbolic bytes - see the module comment; the token decoder above is decided for every byte)
#[kani::proof]
#[kani::unwind(100)]
pub fn c06_placement_loop_on_concrete_texts() {
    concrete_text(b"r3k2r/p1ppqpb1/bn2pnp1/3PN3/1p2P3/2N2Q1p/PPPBBPPP/R3K2R w KQkq - 0 1");
    concrete_text(b"8/2p5/3p4/KP5r/1R3p1k/8/4P1P1/8 w - - 0 1");
    concrete_text(b"k7/1p6/2P5/3p4/4P3/5p2/6P1/7K b - - 12 34");
    concrete_text(b"7k/8/8/8/8/8/8/K7 w - - 99 9999");
    concrete_text(b"1n1k4/2p5/3p4/4p3/5P2/6P1/P6P/RNBQKBNR b KQ - 3 17");
}

// ------------------------------------------------------------------------------------ writer

pub struct Sink {
    pub buf: [u8; 96],
    pub len: usize,
}
impl core::fmt::Write for Sink {
    fn write_str(&mut self, s: &str) -> core::fmt::Result {
        let b = s.as_bytes();
        let mut i = 0;
        while i < b.len() {
            if self.len >= 96 {
                return Err(core::fmt::Error);
            }
            self.buf[self.len] = b[i];
            self.len += 1;
            i += 1;
        }
        Ok(())
    }
}

/// Round trip, decided in two halves that share a reference text (the real writer's output cannot
/// be fed to the real parser inside one query: after core::fmt the bytes are no longer constants
/// for the symbolic executor, and the parser's slice patterns then fork on every byte - measured
/// > 12 GB even for a fully concrete placement):
///   (1) real `Display for Board` (through core::fmt, into a byte sink) == reference canonical
///       FEN text, byte for byte and in length;
///   (2) real parser on that reference text == the board (all fields, derived state).
/// Hence parse(write(B)) = B and write(parse(text)) = text for the canonical text of B.
/// Shape per harness: concrete placement, rights and en-passant file; side to move as given;
/// both clocks symbolic inside a digit-count class (so the text length is a constant).
fn body_roundtrip(base: SBoard, prefix: &'static [u8], half_lo: u16, half_hi: u16, full_lo: u16, full_hi: u16) {
    body_roundtrip_sym(base, prefix, 0, half_lo, half_hi, full_lo, full_hi)
}
/// `sym`: the occupied squares of this set get a symbolic piece identity and colour
fn body_roundtrip_sym(base: SBoard, prefix: &'static [u8], sym: u64, half_lo: u16, half_hi: u16, full_lo: u16, full_hi: u16) {
    unsafe { SYM_SQUARES = sym };
    // the parser half on a 32-piece text exceeds 12 GB (measured); it is decided on the two-king
    // texts of the c06_total_on_arbitrary_tail / c06_clock_field_exact queries instead
    body_roundtrip_part(base, prefix, half_lo, half_hi, full_lo, full_hi, true, false)
}
fn body_roundtrip_part(base: SBoard, prefix: &'static [u8], half_lo: u16, half_hi: u16, full_lo: u16, full_hi: u16, writer: bool, parser: bool) {
    use core::fmt::Write;
    let mut s = base;
    // the occupied squares of `sym` get a symbolic piece identity and colour (the occupancy - hence
    // the digit runs and every text offset - stays as in the base position; the validity assumption
    // below keeps kings, castling rooks and the en-passant pawn where the shape needs them).
    // Measured: even 8 symbolic identities exceed 12 GB (each symbolic `char` forks four ways in
    // core::fmt's UTF-8 encoder), so every shape currently passes the empty set.
    let sym = unsafe { SYM_SQUARES };
    let mut q = 0u8;
    while q < 64 {
        if has(base.occ() & sym, q) {
            let code: u8 = kani::any();
            kani::assume(code < 12);
            let m = !bit(q);
            s.colors[0] &= m;
            s.colors[1] &= m;
            let mut p = 0;
            while p < 6 {
                s.pieces[p] &= m;
                p += 1;
            }
            s.colors[(code / 6) as usize] |= bit(q);
            s.pieces[(code % 6) as usize] |= bit(q);
        }
        q += 1;
    }
    s.half = kani::any();
    s.full = kani::any();
    kani::assume(s.half >= half_lo && s.half <= half_hi && s.full >= full_lo && s.full <= full_hi);
    kani::assume(valid(&s));
    let want_len = canonical_len(&base, half_lo, full_lo);
    // reference text = the shape's hand-written constant prefix (placement, side, rights,
    // en-passant square) + the two clocks in decimal; built from constants so that the parser
    // below runs on constant bytes except for the clock digits
    let mut reference = [0u8; 96];
    let mut n = 0usize;
    while n < prefix.len() {
        reference[n] = prefix[n];
        n += 1;
    }
    n = put_number(&mut reference, n, s.half, digits(half_lo));
    reference[n] = b' ';
    n += 1;
    n = put_number(&mut reference, n, s.full, digits(full_lo));
    assert!(n == want_len);
    // the hand-written prefix is the canonical text of the BASE position (a check of the
    // reference writer itself); the reference text of s is then produced by the reference writer
    let mut base_clocks = base;
    base_clocks.half = s.half;
    base_clocks.full = s.full;
    let canon_base = canonical_fen(&base_clocks, digits(half_lo), digits(full_lo));
    let mut i = 0;
    while i < 96 {
        assert!(canon_base[i] == reference[i]);
        i += 1;
    }
    let reference = canonical_fen(&s, digits(half_lo), digits(full_lo));
    // (1) the real writer
    let b = to_board(&s, pins(&s), checkers(&s), kani::any());
    if writer {
    let mut sink = Sink { buf: [0; 96], len: 0 };
    let ok = write!(sink, "{}", b).is_ok();
    assert!(ok);
    #[cfg(cv_replay)]
    {
        crate::report::dump("C05 writer", &s, None);
        println!("CEX[C05] written  ={:?}\nCEX[C05] reference={:?}", core::str::from_utf8(&sink.buf[..sink.len]), core::str::from_utf8(&reference[..want_len]));
    }
    assert!(sink.len == want_len);
    let mut i = 0;
    while i < 96 {
        assert!(sink.buf[i] == reference[i]);
        i += 1;
    }
    }
    kani::cover!(true);
    if !parser {
        return;
    }
    // (2) the real parser on the reference text
    match parse_fen(&reference[..want_len]) {
        Ok(nb) => {
            assert!(to_sboard(&nb).same(&s));
            let (p, q) = (nb.verif_parts(), b.verif_parts());
            assert!(p.pinned == q.pinned && p.checkers == q.checkers);
        }
        Err(_) => {
            assert!(false, "the canonical text of a valid position must be accepted");
        }
    }
}

/// reference FEN writer: canonical text of s (run-length digits for empty squares)
fn canonical_fen(s: &SBoard, half_digits: usize, full_digits: usize) -> [u8; 96] {
    let mut out = [0u8; 96];
    let mut n = 0usize;
    let mut r = 8u8;
    while r > 0 {
        r -= 1;
        let mut gap = 0u8;
        let mut f = 0u8;
        while f < 8 {
            let q = r * 8 + f;
            if has(s.occ(), q) {
                if gap > 0 {
                    out[n] = b'0' + gap;
                    n += 1;
                    gap = 0;
                }
                out[n] = square_byte(s, q);
                n += 1;
            } else {
                gap += 1;
            }
            f += 1;
        }
        if gap > 0 {
            out[n] = b'0' + gap;
            n += 1;
        }
        if r > 0 {
            out[n] = b'/';
            n += 1;
        }
    }
    out[n] = b' ';
    out[n + 1] = if s.turn == 0 { b'w' } else { b'b' };
    out[n + 2] = b' ';
    n += 3;
    if s.rights == 0 {
        out[n] = b'-';
        n += 1;
    } else {
        if s.rights & WK != 0 {
            out[n] = b'K';
            n += 1;
        }
        if s.rights & WQ != 0 {
            out[n] = b'Q';
            n += 1;
        }
        if s.rights & BK != 0 {
            out[n] = b'k';
            n += 1;
        }
        if s.rights & BQ != 0 {
            out[n] = b'q';
            n += 1;
        }
    }
    out[n] = b' ';
    n += 1;
    match s.ep {
        Some(f) => {
            out[n] = b'a' + f;
            out[n + 1] = if s.turn == 0 { b'6' } else { b'3' };
            n += 2;
        }
        None => {
            out[n] = b'-';
            n += 1;
        }
    }
    out[n] = b' ';
    n += 1;
    n = put_number(&mut out, n, s.half, half_digits);
    out[n] = b' ';
    n += 1;
    let _ = put_number(&mut out, n, s.full, full_digits);
    out
}
/// decimal rendering with the given (constant) number of digits - the caller's digit class
/// guarantees it is the minimal one, so the positions written are constants
fn put_number(out: &mut [u8; 96], at: usize, v: u16, k: usize) -> usize {
    let mut n = at;
    if k >= 4 {
        out[n] = b'0' + (v / 1000 % 10) as u8;
        n += 1;
    }
    if k >= 3 {
        out[n] = b'0' + (v / 100 % 10) as u8;
        n += 1;
    }
    if k >= 2 {
        out[n] = b'0' + (v / 10 % 10) as u8;
        n += 1;
    }
    out[n] = b'0' + (v % 10) as u8;
    n + 1
}

static mut SYM_SQUARES: u64 = 0;
fn digits(v: u16) -> usize {
    if v >= 1000 {
        4
    } else if v >= 100 {
        3
    } else if v >= 10 {
        2
    } else {
        1
    }
}
/// length of the canonical FEN of a concrete position with the given clock values
fn canonical_len(s: &SBoard, half: u16, full: u16) -> usize {
    let mut n = 0usize;
    let mut r = 8u8;
    while r > 0 {
        r -= 1;
        let mut gap = false;
        let mut f = 0u8;
        while f < 8 {
            if has(s.occ(), r * 8 + f) {
                n += 1;
                gap = false;
            } else if !gap {
                n += 1; // one digit per run of empty squares
                gap = true;
            }
            f += 1;
        }
        if r > 0 {
            n += 1;
        }
    }
    n += 3; // " w "
    n += if s.rights == 0 { 1 } else { s.rights.count_ones() as usize };
    n += 1;
    n += if s.ep.is_some() { 2 } else { 1 };
    n += 1 + digits(half) + 1 + digits(full);
    n
}
fn base_from(placement: [(u8, u8, u8); 32], n: usize, turn: u8, rights: u8, ep: Option<u8>) -> SBoard {
    let mut s = SBoard { colors: [0, 0], pieces: [0; 6], turn, rights, ep, half: 0, full: 0 };
    let mut i = 0;
    while i < n {
        let (q, c, p) = placement[i];
        s.colors[c as usize] |= bit(q);
        s.pieces[p as usize] |= bit(q);
        i += 1;
    }
    s
}
/// start position with optional edits: (from, to) pawn/piece relocations applied in order
fn start_with(moves: &[(u8, u8)], turn: u8, ep: Option<u8>) -> SBoard {
    let back = [ROOK, KNIGHT, BISHOP, QUEEN, KING, BISHOP, KNIGHT, ROOK];
    let mut s = SBoard { colors: [0, 0], pieces: [0; 6], turn, rights: 15, ep, half: 0, full: 0 };
    let mut f = 0u8;
    while f < 8 {
        s.colors[0] |= bit(f) | bit(8 + f);
        s.colors[1] |= bit(56 + f) | bit(48 + f);
        s.pieces[back[f as usize] as usize] |= bit(f) | bit(56 + f);
        s.pieces[PAWN as usize] |= bit(8 + f) | bit(48 + f);
        f += 1;
    }
    let mut i = 0;
    while i < moves.len() {
        let (from, to) = moves[i];
        let c = if has(s.colors[0], from) { 0 } else { 1 };
        let p = s.piece_at(from).unwrap();
        s.colors[c] = (s.colors[c] & !bit(from)) | bit(to);
        s.pieces[p as usize] = (s.pieces[p as usize] & !bit(from)) | bit(to);
        i += 1;
    }
    s
}

#[kani::proof]
#[kani::unwind(97)]
pub fn c05_roundtrip_start_position() {
    body_roundtrip_sym(start_with(&[], 0, None), b"rnbqkbnr/pppppppp/8/8/8/8/PPPPPPPP/RNBQKBNR w KQkq - ", 0, 0, 9, 0, 9)
}
#[kani::proof]
#[kani::unwind(97)]
pub fn c05_roundtrip_ep_black_to_move() {
    // after 1.e4: en-passant square e3, Black to move; rank 4 (the pawn's) symbolic
    body_roundtrip_sym(start_with(&[(12, 28)], 1, Some(4)), b"rnbqkbnr/pppppppp/8/8/4P3/8/PPPP1PPP/RNBQKBNR b KQkq e3 ", 0, 0, 9, 10, 99)
}
#[kani::proof]
#[kani::unwind(97)]
pub fn c05_roundtrip_ep_white_to_move() {
    // after 1.e4 a6 2.e5 d5: en-passant square d6, White to move; rank 5 symbolic
    body_roundtrip_sym(start_with(&[(12, 28), (48, 40), (28, 36), (51, 35)], 0, Some(3)), b"rnbqkbnr/1pp1pppp/p7/3pP3/8/8/PPPP1PPP/RNBQKBNR w KQkq d6 ", 0, 0, 9, 100, 999)
}
#[kani::proof]
#[kani::unwind(97)]
pub fn c05_roundtrip_start_black_to_move() {
    body_roundtrip_sym(start_with(&[], 1, None), b"rnbqkbnr/pppppppp/8/8/8/8/PPPPPPPP/RNBQKBNR b KQkq - ", 0, 10, 99, 1000, 9999)
}
#[kani::proof]
#[kani::unwind(97)]
pub fn c05_roundtrip_partial_rights_endgame() {
    // kings and rooks at home, some pawns; rights Kq only; rank 1 symbolic
    let mut s = SBoard { colors: [0, 0], pieces: [0; 6], turn: 0, rights: WK | BQ, ep: None, half: 0, full: 0 };
    s.colors[0] = bit(4) | bit(7) | bit(0) | bit(9) | bit(27);
    s.colors[1] = bit(60) | bit(56) | bit(54);
    s.pieces[KING as usize] = bit(4) | bit(60);
    s.pieces[ROOK as usize] = bit(7) | bit(0) | bit(56);
    s.pieces[PAWN as usize] = bit(9) | bit(27) | bit(54);
    body_roundtrip_sym(s, b"r3k3/6p1/8/8/3P4/8/1P6/R3K2R w Kq - ", 0, 100, 999, 1, 9)
}


fn rights_shape(rights: u8, prefix: &'static [u8]) {
    let mut s = SBoard { colors: [0, 0], pieces: [0; 6], turn: 1, rights, ep: None, half: 0, full: 0 };
    s.colors[0] = bit(4) | bit(0) | bit(7);
    s.colors[1] = bit(60) | bit(56) | bit(63);
    s.pieces[KING as usize] = bit(4) | bit(60);
    s.pieces[ROOK as usize] = bit(0) | bit(7) | bit(56) | bit(63);
    body_roundtrip_sym(s, prefix, 0, 0, 9, 10, 99)
}
macro_rules! rights_shape {
    ($name:ident, $rights:expr, $prefix:expr) => {
        #[kani::proof]
        #[kani::unwind(97)]
        pub fn $name() {
            rights_shape($rights, $prefix)
        }
    };
}
// every subset of the castling rights: letters and their order in the writer's text
// harness-family: c05_writer_rights_k_{0..15}
rights_shape!(c05_writer_rights_k_0, 0, b"r3k2r/8/8/8/8/8/8/R3K2R b - - ");
rights_shape!(c05_writer_rights_k_1, 1, b"r3k2r/8/8/8/8/8/8/R3K2R b K - ");
rights_shape!(c05_writer_rights_k_2, 2, b"r3k2r/8/8/8/8/8/8/R3K2R b Q - ");
rights_shape!(c05_writer_rights_k_3, 3, b"r3k2r/8/8/8/8/8/8/R3K2R b KQ - ");
rights_shape!(c05_writer_rights_k_4, 4, b"r3k2r/8/8/8/8/8/8/R3K2R b k - ");
rights_shape!(c05_writer_rights_k_5, 5, b"r3k2r/8/8/8/8/8/8/R3K2R b Kk - ");
rights_shape!(c05_writer_rights_k_6, 6, b"r3k2r/8/8/8/8/8/8/R3K2R b Qk - ");
rights_shape!(c05_writer_rights_k_7, 7, b"r3k2r/8/8/8/8/8/8/R3K2R b KQk - ");
rights_shape!(c05_writer_rights_k_8, 8, b"r3k2r/8/8/8/8/8/8/R3K2R b q - ");
rights_shape!(c05_writer_rights_k_9, 9, b"r3k2r/8/8/8/8/8/8/R3K2R b Kq - ");
rights_shape!(c05_writer_rights_k_10, 10, b"r3k2r/8/8/8/8/8/8/R3K2R b Qq - ");
rights_shape!(c05_writer_rights_k_11, 11, b"r3k2r/8/8/8/8/8/8/R3K2R b KQq - ");
rights_shape!(c05_writer_rights_k_12, 12, b"r3k2r/8/8/8/8/8/8/R3K2R b kq - ");
rights_shape!(c05_writer_rights_k_13, 13, b"r3k2r/8/8/8/8/8/8/R3K2R b Kkq - ");
rights_shape!(c05_writer_rights_k_14, 14, b"r3k2r/8/8/8/8/8/8/R3K2R b Qkq - ");
rights_shape!(c05_writer_rights_k_15, 15, b"r3k2r/8/8/8/8/8/8/R3K2R b KQkq - ");

fn ep_shape(file: u8, white_to_move: bool, prefix: &'static [u8]) {
    // a lone double-stepped pawn on `file`, kings in the corners
    let mut s = SBoard { colors: [0, 0], pieces: [0; 6], turn: if white_to_move { 0 } else { 1 }, rights: 0, ep: Some(file), half: 0, full: 0 };
    s.colors[0] = bit(0);
    s.colors[1] = bit(63);
    s.pieces[KING as usize] = bit(0) | bit(63);
    let pawn = if white_to_move { 32 + file } else { 24 + file };
    s.colors[if white_to_move { 1 } else { 0 }] |= bit(pawn);
    s.pieces[PAWN as usize] |= bit(pawn);
    body_roundtrip_sym(s, prefix, 0, 0, 9, 1, 9)
}
#[kani::proof]
#[kani::unwind(97)]
pub fn c05_writer_ep_a_file_white_to_move() {
    ep_shape(0, true, b"7k/8/8/p7/8/8/8/K7 w - a6 ")
}
#[kani::proof]
#[kani::unwind(97)]
pub fn c05_writer_ep_h_file_white_to_move() {
    ep_shape(7, true, b"7k/8/8/7p/8/8/8/K7 w - h6 ")
}
#[kani::proof]
#[kani::unwind(97)]
pub fn c05_writer_ep_a_file_black_to_move() {
    ep_shape(0, false, b"7k/8/8/8/P7/8/8/K7 b - a3 ")
}
#[kani::proof]
#[kani::unwind(97)]
pub fn c05_writer_ep_h_file_black_to_move() {
    ep_shape(7, false, b"7k/8/8/8/7P/8/8/K7 b - h3 ")
}

/// standard() == parse(start FEN) == builder(start position), on every field
#[kani::proof]
#[kani::unwind(70)]
pub fn c05_three_constructors_agree() {
    let a = Board::standard();
    let b = parse_fen(b"rnbqkbnr/pppppppp/8/8/8/8/PPPPPPPP/RNBQKBNR w KQkq - 0 0").unwrap();
    assert!(to_sboard(&a).same(&to_sboard(&b)));
    assert!(a.verif_parts() == b.verif_parts());
    assert!(a == b);
    // builder: place the 32 pieces
    let s = to_sboard(&a);
    let mut bld = Board::builder();
    let mut q = 0u8;
    while q < 64 {
        if let (Some(c), Some(p)) = (s.color_at(q), s.piece_at(q)) {
            assert!(bld.place(pos(q), color(c), piece(p)).is_ok());
        }
        q += 1;
    }
    bld.castle_rights(chess_movegen::CastleRights::full());
    let c = bld.build().unwrap();
    assert!(to_sboard(&c).same(&s));
    assert!(c.verif_parts() == a.verif_parts());
}


