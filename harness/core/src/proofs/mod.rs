pub mod c18;
mod playback_gen;
