pub mod c18;
pub mod c19;
pub mod c08;
pub mod c09;
pub mod lemmas;
pub mod common;
pub mod c01_units;
pub mod c04;
mod playback_gen;
