pub mod c18;
pub mod c19;
pub mod c08;
mod playback_gen;
