pub mod c18;
pub mod c19;
pub mod c08;
pub mod c09;
mod playback_gen;
