//! shared pieces of the movegen harnesses: symbolic boards, moves, entry-membership
use crate::conv::*;
use crate::spec::rules::*;
use chess_bitboard::BitBoard;
use chess_movegen::{Board, MoveGen};

pub fn any_sboard() -> SBoard {
    let ep_some: bool = kani::any();
    let epf: u8 = kani::any();
    kani::assume(epf < 8);
    let turn: u8 = kani::any();
    kani::assume(turn < 2);
    let rights: u8 = kani::any();
    kani::assume(rights < 16);
    SBoard {
        colors: [kani::any(), kani::any()],
        pieces: [kani::any(), kani::any(), kani::any(), kani::any(), kani::any(), kani::any()],
        turn,
        rights,
        ep: if ep_some { Some(epf) } else { None },
        half: kani::any(),
        full: kani::any(),
    }
}
/// a symbolic position satisfying V
pub fn any_valid_sboard() -> SBoard {
    let s = any_sboard();
    kani::assume(valid(&s));
    s
}
pub fn any_smove() -> SMove {
    let from: u8 = kani::any();
    let to: u8 = kani::any();
    let p: u8 = kani::any();
    kani::assume(from < 64 && to < 64 && p < 5);
    SMove { from, to, promo: if p == 0 { None } else { Some(p) } }
}
/// real board whose cached derived state is the spec's (justified by the c03 derived-state
/// harnesses: build/parse/make-move all produce exactly these values)
pub fn real_board(s: &SBoard) -> Board {
    to_board(s, pins(s), checkers(s), kani::any())
}
/// number of list entries that will yield move m (promotion entries yield all four pieces)
pub fn entries_containing(g: &MoveGen, m: SMove) -> usize {
    let n = g.verif_entries();
    let mut count = 0usize;
    let mut i = 0usize;
    while i < n {
        let (src, dests, promotion) = g.verif_entry(i);
        if src as u8 == m.from && has(dests.to_u64(), m.to) && promotion == m.promo.is_some() {
            count += 1;
        }
        i += 1;
    }
    count
}

/// symbolic board whose side to move is `turn` and whose king stands on `ksq` BY CONSTRUCTION
/// (constants, so the solver's simplifier sees fixed rays from the king square)
pub fn any_sboard_k(turn: u8, ksq: u8) -> SBoard {
    let mut s = any_sboard();
    s.turn = turn;
    let kb = 1u64 << ksq;
    let ek: u8 = kani::any();
    kani::assume(ek < 64 && ek != ksq);
    let ekb = 1u64 << ek;
    s.pieces[KING as usize] = kb | ekb;
    let mut p = 0;
    while p < 5 {
        s.pieces[p] &= !(kb | ekb);
        p += 1;
    }
    s.colors[turn as usize] = (s.colors[turn as usize] | kb) & !ekb;
    s.colors[(1 - turn) as usize] = (s.colors[(1 - turn) as usize] | ekb) & !kb;
    s
}

/// symbolic board with any subset of {side to move, mover's king square, enemy king square}
/// fixed to constants BY CONSTRUCTION (everything else symbolic). Constants let the solver's
/// simplifier see fixed rays from the king squares; the families of harnesses that use this
/// enumerate the constants, so nothing is lost in the thorough tier.
pub fn any_sboard_kk(turn: Option<u8>, ksq: Option<u8>, eksq: Option<u8>) -> SBoard {
    let mut s = any_sboard();
    if let Some(t) = turn {
        s.turn = t;
    }
    let us = s.turn as usize;
    let them = 1 - us;
    let k: u8 = match ksq {
        Some(k) => k,
        None => {
            let k: u8 = kani::any();
            kani::assume(k < 64);
            k
        }
    };
    let ek: u8 = match eksq {
        Some(k) => k,
        None => {
            let k: u8 = kani::any();
            kani::assume(k < 64);
            k
        }
    };
    kani::assume(k != ek);
    let kb = 1u64 << k;
    let ekb = 1u64 << ek;
    s.pieces[KING as usize] = kb | ekb;
    let mut p = 0;
    while p < 5 {
        s.pieces[p] &= !(kb | ekb);
        p += 1;
    }
    s.colors[us] = (s.colors[us] | kb) & !ekb;
    s.colors[them] = (s.colors[them] | ekb) & !kb;
    s
}
