//! C10 - the move iterator honours its size and filtering contracts.
//!
//! One-step induction over an ARBITRARY iterator state (not only states a short operation sequence
//! reaches): up to NMAX symbolic entries (source, destination set, promotion flag), cursor, mask and
//! promotion cursor under the representation invariant `inv`, then ONE real operation, then the
//! abstract state after must be what the set model says, and `inv` must hold again. Because `inv`
//! is established by the generator (C01 asserts it on every generated list) and preserved by
//! every operation, all interleavings of any length are covered.
//!
//! Abstract state: the set R of moves (src, dst, promotion piece) the iterator still owns, given
//! by a membership predicate for one symbolic probe move - no enumeration.
use crate::anyv;
use crate::conv::*;
use crate::spec::rules::*;
use chess_bitboard::{BitBoard, Pos, PromotionPiece};
use chess_movegen::{ChessMove, MoveGen};

pub const NMAX: usize = 18;

#[derive(Clone, Copy)]
pub struct St {
    pub cap: usize,
    pub n: usize,
    pub src: [u8; NMAX],
    pub dst: [u64; NMAX],
    pub promo: [bool; NMAX],
    pub index: usize,
    pub mask: u64,
    pub cursor: usize,
}

/// promotion pieces in the order the iterator yields them: Queen, Rook, Bishop, Knight
fn order_of(p: u8) -> usize {
    match p {
        QUEEN => 0,
        ROOK => 1,
        BISHOP => 2,
        _ => 3,
    }
}

impl St {
    pub fn any(nmax: usize) -> St {
        let n: usize = kani::any();
        kani::assume(n <= nmax);
        let mut s = St { cap: nmax, n, src: [0; NMAX], dst: [0; NMAX], promo: [false; NMAX], index: kani::any(), mask: kani::any(), cursor: kani::any() };
        let mut i = 0;
        while i < nmax {
            let q: u8 = kani::any();
            kani::assume(q < 64);
            s.src[i] = q;
            s.dst[i] = kani::any();
            s.promo[i] = kani::any();
            i += 1;
        }
        s
    }
    pub fn to_real(&self) -> MoveGen {
        let mut v = [(Pos::A1, BitBoard::empty(), false); NMAX];
        let mut i = 0;
        while i < self.cap {
            v[i] = (pos(self.src[i]), BitBoard::from_u64(self.dst[i]), self.promo[i]);
            i += 1;
        }
        MoveGen::verif_from_entries(&v[..self.n], self.index, BitBoard::from_u64(self.mask), self.cursor)
    }
    pub fn of_real(g: &MoveGen) -> St {
        let n = g.verif_entries();
        let mut s = St { cap: NMAX, n, src: [0; NMAX], dst: [0; NMAX], promo: [false; NMAX], index: g.verif_index(), mask: g.verif_mask().to_u64(), cursor: g.verif_promotion_cursor() };
        let mut i = 0;
        while i < n {
            let (a, b, c) = g.verif_entry(i);
            s.src[i] = a as u8;
            s.dst[i] = b.to_u64();
            s.promo[i] = c;
            i += 1;
        }
        s
    }
    /// destinations of entry i that the current mask lets through
    fn vis(&self, i: usize) -> u64 {
        self.dst[i] & self.mask
    }
    /// Representation invariant.
    /// (a) bounds; (b) entries before the cursor are exhausted under the mask; (c) a promotion
    /// group in progress belongs to the entry at the cursor; (d) a move belongs to at most one
    /// entry (the generator's second entry for a pawn is its single en-passant destination);
    /// (e) [need_contiguous; not needed since exhausted entries are skipped - see the "fix:" commit
    /// recorded in known_findings.json] no live entry hides behind an exhausted one.
    pub fn inv(&self, need_contiguous: bool) -> bool {
        if !(self.n <= NMAX && self.index <= self.n && self.cursor < 4) {
            return false;
        }
        let mut ok = true;
        let mut seen_dead = false;
        let mut i = 0;
        while i < self.n {
            if i < self.index {
                ok &= self.vis(i) == 0;
            } else if self.vis(i) == 0 {
                seen_dead = true;
            } else if need_contiguous && seen_dead {
                ok = false;
            }
            let mut j = 0;
            while j < i {
                if self.src[j] == self.src[i] && self.promo[j] == self.promo[i] {
                    ok &= self.dst[j] & self.dst[i] == 0;
                }
                j += 1;
            }
            i += 1;
        }
        if self.cursor != 0 {
            ok &= self.index < self.n && self.promo[self.index] && self.vis(self.index) != 0;
        }
        ok
    }
    /// is move m one the iterator will still yield UNDER MASK `mask` (the moves it owns whose
    /// destination is in the mask; of a promotion group in progress only the pieces not yet yielded)
    pub fn owns(&self, m: SMove, mask: u64) -> bool {
        let mut found = false;
        let mut i = 0;
        while i < self.n {
            if self.src[i] == m.from && has(self.dst[i] & mask, m.to) && self.promo[i] == m.promo.is_some() {
                let mut live = true;
                if i == self.index && self.cursor != 0 {
                    // the group in progress is the lowest destination visible under the CURRENT mask
                    let cur = self.vis(i).trailing_zeros() as u8;
                    if m.to == cur {
                        live = order_of(m.promo.unwrap_or(QUEEN)) >= self.cursor;
                    }
                }
                found |= live;
            }
            i += 1;
        }
        found
    }
    /// number of moves the iterator will still yield under its current mask
    pub fn count(&self) -> usize {
        let mut c = 0usize;
        let mut i = self.index;
        while i < self.n {
            let k = self.vis(i).count_ones() as usize;
            c += if self.promo[i] { 4 * k } else { k };
            i += 1;
        }
        c - if self.cursor != 0 && self.index < self.n { self.cursor } else { 0 }
    }
}

fn any_probe() -> SMove {
    let from: u8 = kani::any();
    let to: u8 = kani::any();
    let p: u8 = kani::any();
    kani::assume(from < 64 && to < 64 && p < 5);
    SMove { from, to, promo: if p == 0 { None } else { Some(p) } }
}

const U: usize = 6; // entries in the quick tier (thorough: 18 = the list's capacity)

// -------------------------------------------------------------------------------------- next
fn body_next(nmax: usize) {
    let s = St::any(nmax);
    kani::assume(s.inv(false));
    let mut g = s.to_real();
    // "nothing left to yield" stated bitwise (the popcount form is the subject of the len query)
    let mut exhausted = true;
    let mut i = s.index;
    while i < s.n {
        exhausted &= s.vis(i) == 0;
        i += 1;
    }
    let r = g.next();
    let t = St::of_real(&g);
    let p = any_probe();
    match r {
        None => {
            assert!(exhausted);
            assert!(t.owns(p, !0) == s.owns(p, !0));
        }
        Some(mv) => {
            let m = of_move(mv);
            // yields a move it owned, visible under the mask, and removes exactly that one
            assert!(!exhausted);
            assert!(s.owns(m, s.mask));
            assert!(!t.owns(m, !0));
            if p != m {
                assert!(t.owns(p, !0) == s.owns(p, !0));
            }
            assert!(t.mask == s.mask && t.n == s.n);
        }
    }
    assert!(t.inv(false));
    kani::cover!(r.is_some() && s.cursor == 3);
    kani::cover!(r.is_some() && !s.promo[s.index] && t.index == s.index + 1);
    kani::cover!(r.is_none() && s.n > 0);
}
#[kani::proof]
#[kani::unwind(8)]
pub fn c10_next_removes_exactly_one() {
    body_next(U)
}
#[kani::proof]
#[kani::unwind(20)]
pub fn c10_next_removes_exactly_one_t() {
    body_next(NMAX)
}

// ----------------------------------------------------------------------- len / is_empty / size_hint
fn body_len(nmax: usize, mid_promotion: bool) {
    let s = St::any(nmax);
    kani::assume(s.inv(false));
    kani::assume((s.cursor != 0) == mid_promotion);
    let g = s.to_real();
    let want = s.count();
    assert!(g.is_empty() == (want == 0));
    assert!(g.len() == want);
    assert!(g.size_hint() == (want, Some(want)));
    let h = g.clone();
    assert!(h.len() == want);
    assert!(g.count() == want);
    kani::cover!(want == 9);
}
#[kani::proof]
#[kani::unwind(8)]
pub fn c10_len_is_empty_size_hint() {
    body_len(4, false)
}
#[kani::proof]
#[kani::unwind(8)]
pub fn c10_len_mid_promotion() {
    body_len(4, true)
}
#[kani::proof]
#[kani::unwind(8)]
pub fn c10_len_is_empty_size_hint_t() {
    body_len(6, false)
}

// -------------------------------------------------------------------------------------- clone
#[kani::proof]
#[kani::unwind(8)]
pub fn c10_clone_is_equal_and_independent() {
    let s = St::any(U);
    kani::assume(s.inv(false));
    let mut g = s.to_real();
    let mut h = g.clone();
    let a = g.next();
    let t = St::of_real(&h);
    // the clone is untouched by advancing the original, and then yields the same move
    let p = any_probe();
    assert!(t.owns(p, !0) == s.owns(p, !0) && t.count() == s.count() && t.index == s.index && t.cursor == s.cursor);
    let b = h.next();
    assert!(a == b);
}

// -------------------------------------------------------------------------------------- set_mask
fn body_set_mask(nmax: usize, mid_promotion: bool) {
    let s = St::any(nmax);
    kani::assume(s.inv(false));
    kani::assume((s.cursor != 0) == mid_promotion);
    let mut g = s.to_real();
    let m2: u64 = kani::any();
    g.set_mask(BitBoard::from_u64(m2));
    let t = St::of_real(&g);
    let p = any_probe();
    // nothing is lost or invented: ownership under every later mask is unchanged ...
    assert!(t.owns(p, !0) == s.owns(p, !0));
    // ... and what the iterator will now yield is exactly the owned moves with destination in m2
    assert!(t.mask == m2 && t.n == s.n);
    assert!(t.inv(false));
    let visible = t.owns(p, t.mask);
    assert!(visible == (s.owns(p, !0) && has(m2, p.to)));
    kani::cover!(t.count() > 0 && t.count() < s.count());
}
#[kani::proof]
#[kani::unwind(8)]
pub fn c10_set_mask_filters_and_loses_nothing() {
    body_set_mask(U, false)
}
#[kani::proof]
#[kani::unwind(8)]
pub fn c10_kf_set_mask_mid_promotion() {
    body_set_mask(U, true)
}
#[kani::proof]
#[kani::unwind(11)]
pub fn c10_set_mask_filters_and_loses_nothing_t() {
    // 18 entries (the capacity) ran past 27 minutes: the compaction swaps entries through raw
    // pointers at symbolic addresses; 9 entries is what the thorough budget allows
    body_set_mask(9, false)
}

// -------------------------------------------------------------------------------------- remove
fn body_remove(nmax: usize, mid_promotion: bool) {
    let s = St::any(nmax);
    kani::assume(s.inv(false));
    kani::assume((s.cursor != 0) == mid_promotion);
    let mut g = s.to_real();
    let rm: u64 = kani::any();
    g.remove(BitBoard::from_u64(rm));
    let t = St::of_real(&g);
    let p = any_probe();
    // removes exactly the moves whose destination is in rm
    assert!(t.owns(p, !0) == (s.owns(p, !0) && !has(rm, p.to)));
    assert!(t.mask == s.mask && t.n == s.n);
    // and the iterator still yields every remaining visible move (nothing hidden)
    assert!(t.inv(false));
    kani::cover!(t.count() > 0 && t.count() < s.count());
}
#[kani::proof]
#[kani::unwind(8)]
pub fn c10_remove_removes_exactly_those() {
    body_remove(U, false)
}
#[kani::proof]
#[kani::unwind(8)]
pub fn c10_remove_mid_promotion() {
    body_remove(U, true)
}

// ---------------------------------------------------------------------------------- remove_move
fn body_remove_move(nmax: usize, promotion_move: bool, mid_promotion: bool) {
    let s = St::any(nmax);
    kani::assume(s.inv(false));
    kani::assume((s.cursor != 0) == mid_promotion);
    let mut g = s.to_real();
    let m = any_probe();
    kani::assume(m.promo.is_some() == promotion_move);
    let _found = g.remove_move(to_move(m));
    let t = St::of_real(&g);
    let p = any_probe();
    // removes exactly that move, if the iterator owned it, and nothing else
    if p == m {
        assert!(!t.owns(p, !0));
    } else {
        assert!(t.owns(p, !0) == s.owns(p, !0));
    }
    assert!(t.mask == s.mask && t.n == s.n);
    assert!(t.inv(false));
    kani::cover!(s.owns(m, !0));
    kani::cover!(!s.owns(m, !0));
}
#[kani::proof]
#[kani::unwind(8)]
pub fn c10_remove_move_removes_exactly_it() {
    body_remove_move(U, false, false)
}
#[kani::proof]
#[kani::unwind(8)]
pub fn c10_kf_remove_move_promotion() {
    body_remove_move(U, true, false)
}
#[kani::proof]
#[kani::unwind(8)]
pub fn c10_remove_move_mid_promotion() {
    body_remove_move(U, false, true)
}

// ------------------------------------------------------------ single-move legality (C01 clause)
/// `Board::is_legal(mv)` is `legals().any(|m| m == mv)`: with the generated list replaced by an
/// arbitrary iterator state as the generator returns it (cursor at the start, full mask, no
/// promotion group in progress), the answer is exactly membership of mv in the list's moves -
/// so "asking whether a single given move is legal gives the same answer" as the generator (C01).
static mut LIST: Option<St> = None;
fn stub_legals(_b: &chess_movegen::Board) -> MoveGen {
    unsafe { LIST.as_ref().unwrap().to_real() }
}
#[kani::proof]
#[kani::unwind(9)]
#[kani::stub(chess_movegen::Board::legals, stub_legals)]
pub fn c10_is_legal_is_membership_in_the_generated_list() {
    let mut s = St::any(2);
    s.index = 0;
    s.mask = !0;
    s.cursor = 0;
    kani::assume(s.inv(false));
    // at most 7 moves in the list (bounds the iteration inside `any`): <= 2 destinations per
    // entry, a promotion entry one (= four moves)
    let mut i = 0;
    while i < 2 {
        kani::assume(s.dst[i].count_ones() <= if s.promo[i] { 1 } else { 2 });
        i += 1;
    }
    kani::assume(!(s.n == 2 && s.promo[0] && s.promo[1]));
    unsafe { LIST = Some(s) };
    let b = chess_movegen::Board::standard();
    let p = any_probe();
    let got = b.is_legal(to_move(p));
    assert!(got == s.owns(p, !0));
    kani::cover!(got);
    kani::cover!(!got && p.promo.is_some());
}
