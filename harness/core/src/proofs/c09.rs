//! C09 - geometry tables and constants equal their definitions (S-level geometry in spec/geom.rs),
//! and the checked-in tables agree with the per-square functions of chess-lookup-generator.
use crate::anyv;
use crate::spec::geom as g;
use chess_bitboard::{BitBoard, Color, File, Pos, Rank, Side};
use chess_lookup as l;
use chess_lookup_generator as gen;

#[kani::proof]
#[kani::unwind(9)]
pub fn c09_leapers_and_rays() {
    let p = anyv::pos();
    let s = p as u8;
    assert!(l::knight_moves(p).to_u64() == g::knight(s));
    assert!(l::king_moves(p).to_u64() == g::king(s));
    assert!(l::rook_rays(p).to_u64() == g::rook_rays(s));
    assert!(l::bishop_rays(p).to_u64() == g::bishop_rays(s));
    kani::cover!(l::knight_moves(p).count() == 2);
    kani::cover!(l::knight_moves(p).count() == 8);
}

#[kani::proof]
#[kani::unwind(9)]
pub fn c09_pawn_helpers() {
    let p = anyv::pos();
    let s = p as u8;
    let c = anyv::color();
    let occ: u64 = kani::any();
    let o = BitBoard::from_u64(occ);
    assert!(l::pawn_attacks_moves(p, c).to_u64() == g::pawn_att(s, c as u8));
    assert!(l::pawn_attacks(p, c, o).to_u64() == g::pawn_att(s, c as u8) & occ);
    assert!(l::pawn_quiets(p, c, o).to_u64() == g::pawn_push(s, c as u8, occ));
    assert!(l::pawn_moves(p, c, o).to_u64() == (g::pawn_push(s, c as u8, occ) | (g::pawn_att(s, c as u8) & occ)));
    kani::cover!(l::pawn_quiets(p, c, o).count() == 2);
    kani::cover!(l::pawn_attacks(p, c, o).count() == 2);
}

#[kani::proof]
#[kani::unwind(9)]
pub fn c09_between_line_distance() {
    let a = anyv::pos();
    let b = anyv::pos();
    assert!(l::between(a, b).to_u64() == g::between(a as u8, b as u8));
    assert!(l::line(a, b).to_u64() == g::line(a as u8, b as u8));
    assert!(l::distance(a, b) == g::distance(a as u8, b as u8));
    // non-aligned pairs: empty
    if !g::aligned(a as u8, b as u8) {
        assert!(l::between(a, b).none() && l::line(a, b).none());
    }
    // symmetric
    assert!(l::between(a, b) == l::between(b, a) && l::line(a, b) == l::line(b, a));
    kani::cover!(l::between(a, b).count() == 6);
    kani::cover!(l::line(a, b).count() == 2);
}

#[kani::proof]
#[kani::unwind(10)]
pub fn c09_constants() {
    let f = anyv::file();
    let r = anyv::rank();
    let fi = f as u8 as i8;
    let ri = r as u8 as i8;
    assert!(l::ADJACENT_FILES[f].to_u64() == g::file_set(fi - 1) | g::file_set(fi + 1));
    assert!(l::ADJACENT_RANKS[r].to_u64() == g::rank_set(ri - 1) | g::rank_set(ri + 1));
    assert!(l::PAWN_DOUBLE_SOURCE.to_u64() == g::rank_set(1) | g::rank_set(6));
    assert!(l::PAWN_DOUBLE_DEST.to_u64() == g::rank_set(3) | g::rank_set(4));
    assert!(l::BACKRANK[Color::White] == Rank::_1 && l::BACKRANK[Color::Black] == Rank::_8);
    assert!(l::BACKRANK_BB[Color::White].to_u64() == g::rank_set(0) && l::BACKRANK_BB[Color::Black].to_u64() == g::rank_set(7));
    // king start / castling destinations: e1,c1,g1,e8,c8,g8
    assert!(l::CASTLE_MOVES.to_u64() == g::at(4, 0) | g::at(2, 0) | g::at(6, 0) | g::at(4, 7) | g::at(2, 7) | g::at(6, 7));
    assert!(l::PAWN_DOUBLE_MOVE[Color::White].to_u64() == g::rank_set(1) | g::rank_set(3));
    assert!(l::PAWN_DOUBLE_MOVE[Color::Black].to_u64() == g::rank_set(6) | g::rank_set(4));
    assert!(l::ROOK_CASTLE_QUEENSIDE.to_u64() == g::file_set(0) | g::file_set(3));
    assert!(l::ROOK_CASTLE_KINGSIDE.to_u64() == g::file_set(7) | g::file_set(5));
    assert!(l::CASTLE_ROOK_START[f] == if fi < 4 { File::A } else { File::H });
    assert!(l::CASTLE_ROOK_END[f] == if fi < 4 { File::D } else { File::F });
    assert!(l::PROMOTION_RANK[Color::White] == Rank::_8 && l::PROMOTION_RANK[Color::Black] == Rank::_1);
    assert!(l::PAWN_DOUBLE_MOVE_SOURCE_RANK[Color::White] == Rank::_2 && l::PAWN_DOUBLE_MOVE_SOURCE_RANK[Color::Black] == Rank::_7);
    assert!(l::PAWN_DOUBLE_MOVE_DEST_RANK[Color::White] == Rank::_4 && l::PAWN_DOUBLE_MOVE_DEST_RANK[Color::Black] == Rank::_5);
    // squares that must be empty for castling / that the king crosses (start square excluded)
    assert!(l::KINGSIDE_CASTLE_FILES.to_u64() == g::file_set(5) | g::file_set(6));
    assert!(l::QUEENSIDE_CASTLE_FILES.to_u64() == g::file_set(1) | g::file_set(2) | g::file_set(3));
    assert!(l::KINGSIDE_CASTLE_SAFE_FILES.to_u64() == g::file_set(5) | g::file_set(6));
    assert!(l::QUEENSIDE_CASTLE_SAFE_FILES.to_u64() == g::file_set(2) | g::file_set(3));
    let c = anyv::color();
    assert!(c.enpassant_capture_rank() == if c == Color::White { Rank::_6 } else { Rank::_3 });
    assert!(c.enpassant_pawn_rank() == if c == Color::White { Rank::_5 } else { Rank::_4 });
}

/// checked-in tables == what the generator's per-square functions compute
#[kani::proof]
#[kani::unwind(10)]
pub fn c09_generator_agreement() {
    let p = anyv::pos();
    let c = anyv::color();
    assert!(l::knight_moves(p) == gen::knight_moves(p));
    assert!(l::king_moves(p) == gen::king_moves(p));
    assert!(l::rook_rays(p) == gen::rook_rays(p));
    assert!(l::bishop_rays(p) == gen::bishop_rays(p));
    assert!(l::pawn_attacks_moves(p, c) == gen::pawn_attacks(p)[c]);
    // pawn quiets table == generator, observed through the accessor on an empty board
    assert!(l::pawn_quiets(p, c, BitBoard::empty()) == gen::pawn_quiets(p)[c]);
}
