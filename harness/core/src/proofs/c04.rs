//! C04 - the position hash is a pure function of the position.
//! (1) all 794 keys are pairwise distinct and non-zero (two symbolic indices, real tables);
//! (2) the invariant  piece_hash == XOR of the keys of the pieces on the board  is established by
//!     Board::standard() and preserved by BoardBuilder::place / remove from an arbitrary state
//!     (the parser and make-move parts of the invariant are in the C05/C06 and C02/C03 queries);
//! (3) equal boards hash equal, a difference in exactly one component changes the hash, and
//!     `Hash for Board` feeds exactly zobrist() to the hasher.
use super::common::*;
use crate::anyv;
use crate::conv::*;
use crate::spec::rules::*;
use chess_bitboard::{Color, File, Piece, Pos};
use chess_movegen::{Board, BoardBuilder};

/// key number i of the flattened key space: 768 piece keys, 16 castling keys, 8 en-passant, 2 turn
fn key(i: u16) -> u64 {
    if i < 768 {
        let c = (i / 384) as u8;
        let sq = ((i % 384) / 6) as u8;
        let p = (i % 6) as u8;
        chess_lookup::zobrist(pos(sq), piece(p), color(c))
    } else if i < 784 {
        chess_lookup::castle_rights_zobrist((i - 768) as usize)
    } else if i < 792 {
        chess_lookup::en_passant_zobrist(File::from_u8((i - 784) as u8).unwrap())
    } else {
        chess_lookup::turn_zobrist(color((i - 792) as u8))
    }
}

#[kani::proof]
pub fn c04_keys_distinct_nonzero() {
    let i: u16 = kani::any();
    let j: u16 = kani::any();
    kani::assume(i < 794 && j < 794 && i != j);
    assert!(key(i) != 0);
    assert!(key(i) != key(j));
    kani::cover!(i < 768 && j >= 792);
}

/// arbitrary well-formed placement (not necessarily a valid chess position)
fn any_partition() -> SBoard {
    let s = any_sboard();
    kani::assume(s.partition_ok());
    s
}

/// Inductive step of the hash invariant in DELTA form: from an arbitrary builder state with an
/// arbitrary hash value h, `place` changes exactly one square (empty -> piece) and xors exactly
/// that square's key into the hash; a refused `place` changes nothing. Because the invariant's
/// right-hand side is an XOR over squares of a term that depends on that square's content only,
/// "hash and placement change by the same single-square term" preserves it. (Comparing two full
/// 768-term XOR sums symbolically is a parity problem SAT solvers do not finish: measured
/// > 900 s; the delta form is the same statement without the common terms.)
#[kani::proof]
pub fn c04_builder_place_preserves_invariant() {
    let s = any_partition();
    let h: u64 = kani::any();
    let b = to_board(&s, kani::any(), kani::any(), h);
    let mut bld = BoardBuilder::verif_from_board(b);
    let q = anyv::pos();
    let c = anyv::color();
    let p = anyv::piece();
    let ok = bld.place(q, c, p).is_ok();
    let after = bld.verif_board();
    let t = to_sboard(&after);
    let occupied = has(s.occ(), q as u8);
    assert!(ok == !occupied);
    if ok {
        // exactly that piece was added
        let mut want = s;
        want.colors[c as usize] |= bit(q as u8);
        want.pieces[p as usize] |= bit(q as u8);
        assert!(t.same(&want));
        assert!(after.verif_parts().zobrist == h ^ chess_lookup::zobrist(q, p, c));
    } else {
        assert!(t.same(&s));
        assert!(after.verif_parts().zobrist == h);
    }
    kani::cover!(ok);
    kani::cover!(!ok);
}

#[kani::proof]
pub fn c04_builder_remove_preserves_invariant() {
    let s = any_partition();
    let h: u64 = kani::any();
    let b = to_board(&s, kani::any(), kani::any(), h);
    let mut bld = BoardBuilder::verif_from_board(b);
    let q = anyv::pos();
    bld.remove(q);
    let after = bld.verif_board();
    let t = to_sboard(&after);
    let mut want = s;
    want.colors[0] &= !bit(q as u8);
    want.colors[1] &= !bit(q as u8);
    let mut k = 0;
    while k < 6 {
        want.pieces[k] &= !bit(q as u8);
        k += 1;
    }
    assert!(t.same(&want));
    match (s.color_at(q as u8), s.piece_at(q as u8)) {
        (Some(c), Some(p)) => assert!(after.verif_parts().zobrist == h ^ chess_lookup::zobrist(q, piece(p), color(c))),
        _ => assert!(after.verif_parts().zobrist == h),
    }
    kani::cover!(has(s.occ(), q as u8));
    kani::cover!(!has(s.occ(), q as u8));
}

/// the builder's other setters touch neither placement nor hash; build() returns the builder's
/// fields unchanged (apart from the derived pin/check data) or an error
#[kani::proof]
pub fn c04_builder_setters_and_build_keep_hash() {
    let s = any_partition();
    let h: u64 = kani::any();
    let b = to_board(&s, 0, 0, h);
    let mut bld = BoardBuilder::verif_from_board(b);
    let turn = anyv::color();
    let half: u16 = kani::any();
    let full: u16 = kani::any();
    let ep: Option<File> = if kani::any() { Some(anyv::file()) } else { None };
    bld.turn(turn).half_move_clock(half).full_move_clock(full).enpassant(ep);
    let after = bld.verif_board();
    let t = to_sboard(&after);
    assert!(t.same_placement(&s) && t.rights == s.rights);
    assert!(t.turn == turn as u8 && t.half == half && t.full == full && t.ep == ep.map(|f| f as u8));
    assert!(after.verif_parts().zobrist == h);
}

#[kani::proof]
#[kani::unwind(65)]
pub fn c04_standard_and_empty_builder() {
    let b = Board::standard();
    let s = to_sboard(&b);
    assert!(b.verif_parts().zobrist == spec_piece_hash(&s));
    assert!(b.zobrist() == spec_hash(&s));
    let e = Board::builder().verif_board();
    assert!(e.verif_parts().zobrist == 0 && to_sboard(&e).occ() == 0);
}

/// full hash = piece hash ^ turn ^ en-passant ^ rights keys, read through the real zobrist()
#[kani::proof]
pub fn c04_zobrist_folds_components() {
    let s = any_sboard();
    let h: u64 = kani::any();
    let b = to_board(&s, kani::any(), kani::any(), h);
    let want = h
        ^ chess_lookup::turn_zobrist(color(s.turn))
        ^ match s.ep {
            Some(f) => chess_lookup::en_passant_zobrist(File::from_u8(f).unwrap()),
            None => 0,
        }
        ^ chess_lookup::castle_rights_zobrist(s.rights as usize);
    assert!(b.zobrist() == want);
}

struct Recorder {
    calls: u32,
    value: u64,
}
impl core::hash::Hasher for Recorder {
    fn finish(&self) -> u64 {
        self.value
    }
    fn write(&mut self, _bytes: &[u8]) {
        // the identity hasher of the engine's repetition table cannot take raw bytes
        panic!("Hash for Board must feed exactly one u64");
    }
    fn write_u64(&mut self, i: u64) {
        self.calls += 1;
        self.value = i;
    }
}

/// Eq / Hash agreement for boards carrying the invariant: equal boards (real PartialEq) have
/// equal zobrist() and feed the same single u64 to any hasher; boards that differ in exactly one
/// of turn / rights / en-passant file have different hashes (every component influences it).
#[kani::proof]
pub fn c04_eq_implies_equal_hash() {
    use core::hash::Hash;
    let s = any_partition();
    let t = any_sboard();
    kani::assume(t.partition_ok());
    // The invariant says the piece hash is a FUNCTION of the placement (piece_hash = F(placement),
    // shown inductive by the other harnesses). Here F is left uninterpreted: the two hashes are
    // arbitrary values that agree whenever the placements agree. Cached data and clocks are free:
    // Eq ignores them, the hash must too.
    let same_placement = s.same_placement(&t);
    let ha: u64 = kani::any();
    let hb: u64 = kani::any();
    kani::assume(!same_placement || ha == hb);
    let a = to_board(&s, kani::any(), kani::any(), ha);
    let b = to_board(&t, kani::any(), kani::any(), hb);
    let eq = a == b;
    assert!(eq == (s.same_placement(&t) && s.turn == t.turn && s.rights == t.rights && s.ep == t.ep));
    assert!((a != b) == !eq);
    if eq {
        assert!(a.zobrist() == b.zobrist());
    }
    let mut ha = Recorder { calls: 0, value: 0 };
    let mut hb = Recorder { calls: 0, value: 0 };
    a.hash(&mut ha);
    b.hash(&mut hb);
    assert!(ha.calls == 1 && hb.calls == 1);
    assert!(ha.value == a.zobrist() && hb.value == b.zobrist());
    if same_placement {
        let differing = (s.turn != t.turn) as u8 + (s.rights != t.rights) as u8 + (s.ep != t.ep) as u8;
        if differing == 1 {
            assert!(a.zobrist() != b.zobrist());
        }
    }
    kani::cover!(eq);
    kani::cover!(same_placement && !eq);
}
