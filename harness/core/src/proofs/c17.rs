//! C17 (table-safety / termination clause) - traversal of the opening book from ANY node performs
//! only in-bounds reads and in-range arithmetic and strictly decreases the cursor.
//! One symbolic node index covers all 87204 table positions at once (real table, Kani's default
//! checks ON: pointer validity of the unchecked reads, std's unsafe-precondition assertions,
//! arithmetic overflow, unwrap). Node positions that no traversal reaches are included - the
//! result does not depend on knowing the record boundaries.
use chess_lookup::verif as hook;
use chess_lookup::{BookMoves, EMPTY_BOOK_MOVES, INITIAL_BOOOK_MOVES};

#[kani::proof]
pub fn c17_next_safe_and_strictly_decreasing() {
    let i: usize = kani::any();
    kani::assume(i < hook::BOOK_SIZE);
    let mut it = BookMoves::verif_from_index(i).into_iter();
    let r = it.next();
    match r {
        Some(mv) => {
            // squares are squares (the type guarantees it; the unwraps inside must not fail),
            // the child cursor and the sibling cursor are inside the table and strictly smaller
            assert!((mv.source as u8) < 64 && (mv.dest as u8) < 64);
            assert!(mv.children.verif_index() < i);
            assert!(it.verif_index() < i);
            assert!(i >= 2 && mv.children.verif_index() == i - 2);
        }
        None => {
            assert!(it.verif_index() == i);
        }
    }
    kani::cover!(r.is_some());
    kani::cover!(r.is_none());
}

/// what `next` returns is decoded exactly from the table words (a separate query: its two extra
/// symbolic reads of the table would otherwise double the cost of the safety query above)
#[kani::proof]
pub fn c17_next_decodes_the_table_words() {
    let i: usize = kani::any();
    kani::assume(i < hook::BOOK_SIZE);
    let mut it = BookMoves::verif_from_index(i).into_iter();
    match it.next() {
        Some(mv) => {
            let w = hook::book_word(i - 1);
            assert!(mv.source as u8 == (w & 0x3f) as u8 && mv.dest as u8 == ((w >> 6) & 0x3f) as u8);
            // the sibling link is the offset word
            assert!(it.verif_index() + hook::book_word(i) as usize + 1 == i);
        }
        None => {
            // end of a sibling list (offset word 0), or a sibling link that would leave the table
            assert!(hook::book_word(i) == 0 || (hook::book_word(i) as usize + 1 > i));
        }
    }
}

#[kani::proof]
pub fn c17_entry_points() {
    assert!(INITIAL_BOOOK_MOVES.verif_index() == hook::BOOK_SIZE - 1);
    assert!(EMPTY_BOOK_MOVES.verif_index() == 0);
    let mut e = EMPTY_BOOK_MOVES.into_iter();
    assert!(e.next().is_none());
    let mut r = INITIAL_BOOOK_MOVES.into_iter();
    assert!(r.next().is_some());
}

/// `nth(k)` (and with it `skip` / `step_by`) behaves as k+1 calls of `next`, from any node, for
/// k <= 1. NOT REGISTERED (prefix x17): two more symbolic reads of the 87204-word table - ran
/// 30 minutes at 16 GB without a verdict. Kept as documentation of the attempt.
#[kani::proof]
#[kani::unwind(4)]
pub fn x17_nth_equals_repeated_next() {
    let i: usize = kani::any();
    kani::assume(i < hook::BOOK_SIZE);
    let k: usize = kani::any();
    kani::assume(k <= 1);
    let mut a = BookMoves::verif_from_index(i).into_iter();
    let mut b = BookMoves::verif_from_index(i).into_iter();
    let ra = a.nth(k);
    let mut rb = b.next();
    if k == 1 && rb.is_some() {
        rb = b.next();
    }
    match (ra, rb) {
        (Some(x), Some(y)) => assert!(x.source == y.source && x.dest == y.dest && x.children.verif_index() == y.children.verif_index()),
        (None, None) => {}
        _ => assert!(false, "nth disagrees with repeated next"),
    }
    assert!(a.verif_index() == b.verif_index());
}
