//! C07 - the safe API never violates an unchecked-operation precondition.
//! One-step queries WITH Kani's default checks on (pointer validity, out-of-bounds, arithmetic
//! overflow, std's unsafe-precondition assertions, `unreachable_unchecked`, arrayvec's debug
//! assertion on unchecked pushes), each from an arbitrary state satisfying the invariant that the
//! constructors establish (C06) and every legal move preserves (C02/C03): so no sequence of safe
//! calls can reach a violation. Other C07 sites are covered by the queries of C08 (slider table
//! index), C17 (book reads), C18 (bit pops, nth), C04 (castling index on hash reads), which run
//! with the default checks on as well and are part of this check's groups.
use super::common::*;
use crate::conv::*;
use crate::spec::fast as f;
use crate::spec::rules::*;
use chess_bitboard::BitBoard;
use chess_lookup::between as l_between;
use chess_lookup::bishop_rays as l_bishop_rays;
use chess_lookup::knight_moves as l_knight_moves;
use chess_lookup::pawn_attacks_moves as l_pawn_attacks_moves;
use chess_lookup::rook_rays as l_rook_rays;
use chess_movegen::{Board, ChessMove};

/// a king is always present when its square is requested (unchecked bit pop on a non-empty set),
/// unchecked piece lookup only on occupied squares, castling index < 16 on every hash read
#[kani::proof]
pub fn c07_king_square_piece_lookup_and_hash_reads() {
    let s = any_valid_sboard();
    let b = real_board(&s);
    let wk = b.king_sq(chess_bitboard::Color::White);
    let bk = b.king_sq(chess_bitboard::Color::Black);
    assert!(wk as u8 == s.king_sq(0) && bk as u8 == s.king_sq(1));
    let q = crate::anyv::pos();
    // public square readers on any square
    let got = b.raw().get(q);
    assert!(got.is_some() == has(s.occ(), q as u8));
    let _ = b.raw().piece_of(q);
    let _ = b.zobrist();
    let _ = b.turn();
    let _ = b.in_check();
}

fn stub_is_legal(b: &Board, mv: ChessMove) -> bool {
    is_legal(&to_sboard(b), of_move(mv))
}

/// applying a legal move: unchecked piece lookup, castling-right tables, clock arithmetic,
/// hash-table indices, the incremental check/pin loop - no check fails, for ANY clock values
/// (the builder lets a caller set both clocks to 65535)
fn body_make_move_safety(turn: u8, eksq: u8) {
    let s = any_sboard_kk(Some(turn), None, Some(eksq));
    kani::assume(valid(&s));
    let m = any_smove();
    let legal = is_legal(&s, m);
    kani::assume(legal);
    let n = successor(&s, m);
    let k = n.king_sq(1 - s.turn);
    let own = n.colors[s.turn as usize];
    let att = ((n.pieces[BISHOP as usize] | n.pieces[QUEEN as usize]) & own & f::u_bishop_rays(k))
        | ((n.pieces[ROOK as usize] | n.pieces[QUEEN as usize]) & own & f::u_rook_rays(k));
    kani::assume(att.count_ones() <= 8);
    let b = to_board(&s, kani::any(), kani::any(), kani::any());
    let r = b.move_new(to_move(m));
    assert!(r.is_some());
    kani::cover!(s.half == u16::MAX);
    kani::cover!(s.full == u16::MAX);
}
macro_rules! safety_ek {
    ($name:ident, $turn:expr, $eksq:expr) => {
        #[kani::proof]
        #[kani::unwind(10)]
        #[kani::stub(l_between, f::between)]
        #[kani::stub(l_rook_rays, f::rook_rays)]
        #[kani::stub(l_bishop_rays, f::bishop_rays)]
        #[kani::stub(l_knight_moves, f::knight_moves)]
        #[kani::stub(l_pawn_attacks_moves, f::pawn_attacks_moves)]
        #[kani::stub(chess_movegen::Board::is_legal, stub_is_legal)]
        pub fn $name() {
            body_make_move_safety($turn, $eksq)
        }
    };
}
safety_ek!(c07_make_move_safety_white, 0, 60);
safety_ek!(c07_make_move_safety_black, 1, 4);
// harness: c07_make_move_safety_white
// harness: c07_make_move_safety_black

/// the raw-pointer compaction in set_mask stays inside the list, for every list length 0..=5
/// (18 entries with pointer checks on did not finish in 25 min; the loop body is entry-local)
#[kani::proof]
#[kani::unwind(7)]
pub fn c07_set_mask_pointer_compaction() {
    use super::c10::{St, NMAX};
    let s = St::any(5);
    kani::assume(s.n <= NMAX && s.index <= s.n && s.cursor < 4);
    let mut g = s.to_real();
    g.set_mask(BitBoard::from_u64(kani::any()));
    let t = St::of_real(&g);
    assert!(t.n == s.n && t.index == 0);
    // the entries are a permutation: nothing duplicated by the swaps (checked for a probe slot)
    let i: usize = kani::any();
    kani::assume(i < s.n);
    let mut found = 0u32;
    let mut j = 0;
    while j < t.n {
        if t.src[j] == s.src[i] && t.dst[j] == s.dst[i] && t.promo[j] == s.promo[i] {
            found += 1;
        }
        j += 1;
    }
    assert!(found >= 1);
}
