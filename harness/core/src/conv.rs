//! conversions between the spec's plain representation and the real types (through the hooks)
use crate::spec::rules::{has, SBoard, SMove};
use chess_bitboard::{BitBoard, Color, File, Piece, Pos, PromotionPiece};
use chess_movegen::raw::RawBoard;
use chess_movegen::{Board, ChessMove};

pub fn color(c: u8) -> Color {
    if c == 0 {
        Color::White
    } else {
        Color::Black
    }
}
pub fn to_sboard(b: &Board) -> SBoard {
    let p = b.verif_parts();
    let raw = b.raw();
    SBoard {
        colors: [raw[Color::White].to_u64(), raw[Color::Black].to_u64()],
        pieces: [
            raw[Piece::Pawn].to_u64(),
            raw[Piece::Knight].to_u64(),
            raw[Piece::Bishop].to_u64(),
            raw[Piece::Rook].to_u64(),
            raw[Piece::Queen].to_u64(),
            raw[Piece::King].to_u64(),
        ],
        turn: p.turn as u8,
        rights: p.castle_rights,
        ep: p.enpassant.map(|f| f as u8),
        half: p.half_move_clock,
        full: p.full_move_clock,
    }
}
pub fn raw_of(s: &SBoard) -> RawBoard {
    RawBoard::verif_from_parts(
        [BitBoard::from_u64(s.colors[0]), BitBoard::from_u64(s.colors[1])],
        [
            BitBoard::from_u64(s.pieces[0]),
            BitBoard::from_u64(s.pieces[1]),
            BitBoard::from_u64(s.pieces[2]),
            BitBoard::from_u64(s.pieces[3]),
            BitBoard::from_u64(s.pieces[4]),
            BitBoard::from_u64(s.pieces[5]),
        ],
    )
}
/// real board with the given cached fields
pub fn to_board(s: &SBoard, pinned: u64, checkers: u64, zobrist: u64) -> Board {
    Board::verif_from_raw(
        raw_of(s),
        chess_movegen::verif::VerifParts {
            zobrist,
            turn: color(s.turn),
            castle_rights: s.rights,
            enpassant: s.ep.map(|f| File::from_u8(f).unwrap()),
            half_move_clock: s.half,
            full_move_clock: s.full,
            pinned: BitBoard::from_u64(pinned),
            checkers: BitBoard::from_u64(checkers),
        },
    )
}
pub fn to_move(m: SMove) -> ChessMove {
    ChessMove {
        source: Pos::from_u8(m.from).unwrap(),
        dest: Pos::from_u8(m.to).unwrap(),
        piece: match m.promo {
            Some(1) => Some(PromotionPiece::Knight),
            Some(2) => Some(PromotionPiece::Bishop),
            Some(3) => Some(PromotionPiece::Rook),
            Some(4) => Some(PromotionPiece::Queen),
            _ => None,
        },
    }
}
pub fn of_move(m: ChessMove) -> SMove {
    SMove { from: m.source as u8, to: m.dest as u8, promo: m.piece.map(|p| p as u8) }
}

pub fn piece(p: u8) -> Piece {
    Piece::from_u8(p).unwrap()
}
pub fn pos(s: u8) -> Pos {
    Pos::from_u8(s).unwrap()
}
/// the definition of the piece hash: xor over all squares of the key of the piece standing there
/// (real key table, read through the public accessor)
pub fn spec_piece_hash(s: &SBoard) -> u64 {
    // written with concrete table indices (square, colour, piece all loop counters) so that the
    // model checker reads 768 constants instead of doing 64 symbolic table lookups; on a
    // well-formed placement at most one (colour, piece) holds per square
    let mut h = 0u64;
    let mut q = 0u8;
    while q < 64 {
        let mut c = 0u8;
        while c < 2 {
            let mut p = 0u8;
            while p < 6 {
                if has(s.colors[c as usize], q) && has(s.pieces[p as usize], q) {
                    h ^= chess_lookup::zobrist(pos(q), piece(p), color(c));
                }
                p += 1;
            }
            c += 1;
        }
        q += 1;
    }
    h
}
/// the definition of the full position hash
pub fn spec_hash(s: &SBoard) -> u64 {
    spec_piece_hash(s)
        ^ chess_lookup::turn_zobrist(color(s.turn))
        ^ match s.ep {
            Some(f) => chess_lookup::en_passant_zobrist(File::from_u8(f).unwrap()),
            None => 0,
        }
        ^ chess_lookup::castle_rights_zobrist(s.rights as usize)
}
