//! conversions between the spec's plain representation and the real types (through the hooks)
use crate::spec::rules::{SBoard, SMove};
use chess_bitboard::{BitBoard, Color, File, Piece, Pos, PromotionPiece};
use chess_movegen::raw::RawBoard;
use chess_movegen::{Board, ChessMove};

pub fn color(c: u8) -> Color {
    if c == 0 {
        Color::White
    } else {
        Color::Black
    }
}
pub fn to_sboard(b: &Board) -> SBoard {
    let p = b.verif_parts();
    let raw = b.raw();
    SBoard {
        colors: [raw[Color::White].to_u64(), raw[Color::Black].to_u64()],
        pieces: [
            raw[Piece::Pawn].to_u64(),
            raw[Piece::Knight].to_u64(),
            raw[Piece::Bishop].to_u64(),
            raw[Piece::Rook].to_u64(),
            raw[Piece::Queen].to_u64(),
            raw[Piece::King].to_u64(),
        ],
        turn: p.turn as u8,
        rights: p.castle_rights,
        ep: p.enpassant.map(|f| f as u8),
        half: p.half_move_clock,
        full: p.full_move_clock,
    }
}
pub fn raw_of(s: &SBoard) -> RawBoard {
    RawBoard::verif_from_parts(
        [BitBoard::from_u64(s.colors[0]), BitBoard::from_u64(s.colors[1])],
        [
            BitBoard::from_u64(s.pieces[0]),
            BitBoard::from_u64(s.pieces[1]),
            BitBoard::from_u64(s.pieces[2]),
            BitBoard::from_u64(s.pieces[3]),
            BitBoard::from_u64(s.pieces[4]),
            BitBoard::from_u64(s.pieces[5]),
        ],
    )
}
/// real board with the given cached fields
pub fn to_board(s: &SBoard, pinned: u64, checkers: u64, zobrist: u64) -> Board {
    Board::verif_from_raw(
        raw_of(s),
        chess_movegen::verif::VerifParts {
            zobrist,
            turn: color(s.turn),
            castle_rights: s.rights,
            enpassant: s.ep.map(|f| File::from_u8(f).unwrap()),
            half_move_clock: s.half,
            full_move_clock: s.full,
            pinned: BitBoard::from_u64(pinned),
            checkers: BitBoard::from_u64(checkers),
        },
    )
}
pub fn to_move(m: SMove) -> ChessMove {
    ChessMove {
        source: Pos::from_u8(m.from).unwrap(),
        dest: Pos::from_u8(m.to).unwrap(),
        piece: match m.promo {
            Some(1) => Some(PromotionPiece::Knight),
            Some(2) => Some(PromotionPiece::Bishop),
            Some(3) => Some(PromotionPiece::Rook),
            Some(4) => Some(PromotionPiece::Queen),
            _ => None,
        },
    }
}
pub fn of_move(m: ChessMove) -> SMove {
    SMove { from: m.source as u8, to: m.dest as u8, promo: m.piece.map(|p| p as u8) }
}
