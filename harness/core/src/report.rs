//! human-readable dump of a counterexample (only compiled for native replay: --cfg cv_replay)
use crate::spec::rules::*;

pub fn fen(s: &SBoard) -> String {
    let letters = ['p', 'n', 'b', 'r', 'q', 'k'];
    let mut out = String::new();
    for r in (0..8).rev() {
        let mut gap = 0;
        for f in 0..8 {
            let q = (r * 8 + f) as u8;
            match (s.color_at(q), s.piece_at(q)) {
                (Some(c), Some(p)) => {
                    if gap > 0 {
                        out.push_str(&gap.to_string());
                        gap = 0;
                    }
                    let ch = letters[p as usize];
                    out.push(if c == 0 { ch.to_ascii_uppercase() } else { ch });
                }
                (None, None) => gap += 1,
                _ => out.push('?'),
            }
        }
        if gap > 0 {
            out.push_str(&gap.to_string());
        }
        if r > 0 {
            out.push('/');
        }
    }
    out.push_str(if s.turn == 0 { " w " } else { " b " });
    let mut any = false;
    for (bit, ch) in [(WK, 'K'), (WQ, 'Q'), (BK, 'k'), (BQ, 'q')] {
        if s.rights & bit != 0 {
            out.push(ch);
            any = true;
        }
    }
    if !any {
        out.push('-');
    }
    match s.ep_square() {
        Some(q) => out.push_str(&format!(" {}", sq(q))),
        None => out.push_str(" -"),
    }
    out.push_str(&format!(" {} {}", s.half, s.full));
    out
}
pub fn sq(q: u8) -> String {
    format!("{}{}", (b'a' + (q & 7)) as char, (b'1' + (q >> 3)) as char)
}
pub fn mv(m: SMove) -> String {
    format!("{}{}{}", sq(m.from), sq(m.to), match m.promo { Some(1) => "=N", Some(2) => "=B", Some(3) => "=R", Some(4) => "=Q", _ => "" })
}
pub fn dump(tag: &str, s: &SBoard, m: Option<SMove>) {
    println!("CEX[{}] fen: {}", tag, fen(s));
    if let Some(m) = m {
        println!("CEX[{}] move: {}  pseudo_legal(spec)={} legal(spec)={}", tag, mv(m), pseudo_legal(s, m), is_legal(s, m));
    }
}
