//! C20 - per-thread tracing override is isolated from other threads.
//! Two threads are sequentialised: the hook (cfg rustyyato_chess_verif) replaces the
//! `thread_local!` by two slots and the harness selects the slot ("current thread") before every
//! operation. All ten public functions of tracing-enabled run unmodified. The schedule - which
//! thread issues which operation at each step - is symbolic; the solver covers every schedule of
//! the stated length at once. Operation-granularity interleaving is complete because every
//! operation touches the shared atomic at most once and everything else it touches is the
//! calling thread's own slot.
use tracing_enabled as te;
use tracing_enabled::verif as hook;

/// tri-state model: 0 = no override, 1 = enabled, 2 = disabled
#[derive(Clone, Copy)]
struct Model {
    global: bool,
    local: [u8; 2],
}
impl Model {
    fn view(&self, t: usize) -> bool {
        match self.local[t] {
            0 => self.global,
            1 => true,
            _ => false,
        }
    }
}

const OPS: u8 = 9;
/// run operation `op` on behalf of thread `t`; `saved[t]` is the thread's saved override
fn step(m: &mut Model, saved: &mut [Option<te::LocalEnableState>; 2], msaved: &mut [u8; 2], t: usize, op: u8) {
    hook::set_current_thread(t);
    match op {
        0 => {
            te::enable();
            m.local[t] = 1;
            m.global = true;
        }
        1 => {
            te::disable();
            m.local[t] = 2;
            m.global = false;
        }
        2 => {
            te::toggle();
            m.local[t] = match m.local[t] {
                0 => 0,
                1 => 2,
                _ => 1,
            };
            m.global = !m.global;
        }
        3 => {
            te::local_enable();
            m.local[t] = 1;
        }
        4 => {
            te::local_disable();
            m.local[t] = 2;
        }
        5 => {
            te::local_toggle();
            m.local[t] = match m.local[t] {
                0 => 0,
                1 => 2,
                _ => 1,
            };
        }
        6 => {
            // take: saves the override and leaves the thread without one
            let st = te::local_take();
            assert!(hook::saved_flag(&st) == m.local[t]);
            saved[t] = Some(st);
            msaved[t] = m.local[t];
            m.local[t] = 0;
        }
        7 => {
            // restore what this thread saved earlier (if anything)
            if let Some(st) = saved[t].take() {
                te::restore(st);
                m.local[t] = msaved[t];
            }
        }
        _ => {
            // pure observation
            assert!(te::is_enabled() == m.view(t));
        }
    }
}

fn check_all(m: &Model) {
    // each thread's view = its own override if it has one, else the latest global setting
    hook::set_current_thread(0);
    assert!(te::is_enabled() == m.view(0));
    hook::set_current_thread(1);
    assert!(te::is_enabled() == m.view(1));
    assert!(hook::local_flag(0) == m.local[0]);
    assert!(hook::local_flag(1) == m.local[1]);
    assert!(hook::global_flag() == m.global);
}

fn schedule(n: usize) {
    // initial state of the process: global on, no overrides
    let mut m = Model { global: true, local: [0, 0] };
    check_all(&m);
    let mut saved: [Option<te::LocalEnableState>; 2] = [None, None];
    let mut msaved = [0u8; 2];
    let mut i = 0;
    while i < n {
        let t: usize = if kani::any() { 1 } else { 0 };
        let op: u8 = kani::any();
        kani::assume(op < OPS);
        let other = 1 - t;
        let before_other = hook::local_flag(other);
        step(&mut m, &mut saved, &mut msaved, t, op);
        // isolation: nothing thread t does changes the other thread's override
        assert!(hook::local_flag(other) == before_other);
        check_all(&m);
        i += 1;
    }
    kani::cover!(m.local[0] == 2 && m.local[1] == 1 && m.global);
    kani::cover!(m.local[0] == 0 && m.local[1] == 0 && !m.global);
}

/// every schedule of 4 operations by two threads (18^4 schedules in one query)
#[kani::proof]
#[kani::unwind(6)]
pub fn c20_schedules_4() {
    schedule(4);
}

/// thorough: every schedule of 8 operations
#[kani::proof]
#[kani::unwind(10)]
pub fn c20_schedules_8_t() {
    schedule(8);
}

/// one-step induction: from ANY state (global flag, both overrides arbitrary) one operation by
/// one thread transforms the state as the model says and leaves the other thread's override
/// alone. Covers schedules of any length.
#[kani::proof]
pub fn c20_one_step_from_any_state() {
    let g: bool = kani::any();
    let l0: u8 = kani::any();
    let l1: u8 = kani::any();
    kani::assume(l0 < 3 && l1 < 3);
    // drive the real state to (g, l0, l1) through the public operations
    let mut m = Model { global: true, local: [0, 0] };
    let mut saved: [Option<te::LocalEnableState>; 2] = [None, None];
    let mut msaved = [0u8; 2];
    // global first (it also sets thread 0's override, which is then overwritten)
    step(&mut m, &mut saved, &mut msaved, 0, if g { 0 } else { 1 });
    step(&mut m, &mut saved, &mut msaved, 0, 6); // take -> none
    saved[0] = None;
    if l0 != 0 {
        step(&mut m, &mut saved, &mut msaved, 0, if l0 == 1 { 3 } else { 4 });
    }
    if l1 != 0 {
        step(&mut m, &mut saved, &mut msaved, 1, if l1 == 1 { 3 } else { 4 });
    }
    assert!(m.global == g && m.local[0] == l0 && m.local[1] == l1);
    check_all(&m);
    // an arbitrary saved override for the acting thread (take ... restore returns to it)
    let t: usize = if kani::any() { 1 } else { 0 };
    let op: u8 = kani::any();
    kani::assume(op < OPS);
    let other = 1 - t;
    let before_other = hook::local_flag(other);
    step(&mut m, &mut saved, &mut msaved, t, op);
    assert!(hook::local_flag(other) == before_other);
    check_all(&m);
    kani::cover!(op == 7);
    kani::cover!(op == 2 && l0 == 2);
}

/// take ... (anything by anyone) ... restore returns the thread to the saved state
#[kani::proof]
#[kani::unwind(5)]
pub fn c20_take_restore_roundtrip() {
    let mut m = Model { global: true, local: [0, 0] };
    let mut saved: [Option<te::LocalEnableState>; 2] = [None, None];
    let mut msaved = [0u8; 2];
    // arbitrary prefix of two operations
    let mut i = 0;
    while i < 2 {
        let t: usize = if kani::any() { 1 } else { 0 };
        let op: u8 = kani::any();
        kani::assume(op < 6);
        step(&mut m, &mut saved, &mut msaved, t, op);
        i += 1;
    }
    let t: usize = if kani::any() { 1 } else { 0 };
    let want = m.local[t];
    step(&mut m, &mut saved, &mut msaved, t, 6);
    assert!(hook::local_flag(t) == 0);
    // arbitrary operations in between, by either thread, except take/restore of thread t itself
    let mut i = 0;
    while i < 2 {
        let u: usize = if kani::any() { 1 } else { 0 };
        let op: u8 = kani::any();
        kani::assume(op < 6 || op == 8);
        step(&mut m, &mut saved, &mut msaved, u, op);
        i += 1;
    }
    step(&mut m, &mut saved, &mut msaved, t, 7);
    assert!(hook::local_flag(t) == want);
    check_all(&m);
    kani::cover!(want == 2);
}
