//! C15 - the bot plugin's legality gate (the methods behind the stable interface).
//!
//! Decided: the real `ChessBot::make_move` / `set_board` / `board` (trait `ChessEngineTrait`, the
//! object the dynamic library hands out), driven with a symbolic `StableChessMove` on a symbolic
//! board:
//!  * the move is applied iff `Board::is_legal` says so (a FREE boolean here: its meaning is C01),
//!    the position is unchanged and the move reported invalid otherwise, the board reported
//!    afterwards is the make-move result (a marker transformation here: its meaning is C02);
//!  * the repetition table is asked to count exactly once, with the NEW position, iff the move was
//!    accepted, and its answer is passed through as the threefold flag; `set_board` installs the
//!    board and starts a fresh table.
//! NOT decided by this family (stated in MANIFEST / DESIGN): the repetition table itself - a std
//! HashMap: Kani 0.68 cannot compile hashbrown's lookup (internal compiler error,
//! intrinsics.rs:243) - and the dlopen / abi_stable trait-object boundary (FFI).
use crate::anyv;
use chess_api::{ChessEngineTrait, StableChessMove};
use chess_bitboard::BitBoard;
use chess_bot::ChessBot;
use chess_engine::ThreeFold;
use chess_movegen::{Board, ChessMove};

static mut GATE: bool = false;
fn stub_gate(_b: &Board, _mv: ChessMove) -> bool {
    unsafe { GATE }
}
fn marker_code(mv: ChessMove) -> u64 {
    0x9e3779b97f4a7c15u64.wrapping_mul(1 + mv.source as u64 + 64 * mv.dest as u64 + 4096 * mv.piece.map_or(0, |p| p as u64 + 1))
}
unsafe fn stub_move_unchecked_into(b: &Board, mv: ChessMove, output: &mut Board) {
    let mut parts = b.verif_parts();
    parts.zobrist ^= marker_code(mv);
    *output = Board::verif_from_raw(*b.raw(), parts);
}
/// the repetition table's `add`: records what it was asked and answers with a free boolean
static mut ADD_CALLS: u32 = 0;
static mut ADDED_ZOBRIST: u64 = 0;
static mut ADD_ANSWER: bool = false;
fn stub_add(_t: &mut ThreeFold, board: Board) -> bool {
    unsafe {
        ADD_CALLS += 1;
        ADDED_ZOBRIST = board.verif_parts().zobrist;
        ADD_ANSWER
    }
}

fn any_board() -> Board {
    use chess_movegen::raw::RawBoard;
    let raw = RawBoard::verif_from_parts([anyv::bb(), anyv::bb()], [anyv::bb(), anyv::bb(), anyv::bb(), anyv::bb(), anyv::bb(), anyv::bb()]);
    let r: u8 = kani::any();
    kani::assume(r < 16);
    Board::verif_from_raw(
        raw,
        chess_movegen::verif::VerifParts {
            zobrist: kani::any(),
            turn: anyv::color(),
            castle_rights: r,
            enpassant: None,
            half_move_clock: kani::any(),
            full_move_clock: kani::any(),
            pinned: anyv::bb(),
            checkers: anyv::bb(),
        },
    )
}
fn same(a: &Board, b: &Board) -> bool {
    use chess_bitboard::{Color, Piece};
    a.verif_parts() == b.verif_parts()
        && a[Color::White] == b[Color::White]
        && a[Color::Black] == b[Color::Black]
        && a[Piece::Pawn] == b[Piece::Pawn]
        && a[Piece::Knight] == b[Piece::Knight]
        && a[Piece::Bishop] == b[Piece::Bishop]
        && a[Piece::Rook] == b[Piece::Rook]
        && a[Piece::Queen] == b[Piece::Queen]
        && a[Piece::King] == b[Piece::King]
}

#[kani::proof]
#[kani::stub(chess_movegen::Board::is_legal, stub_gate)]
#[kani::stub(chess_movegen::Board::move_unchecked_into, stub_move_unchecked_into)]
#[kani::stub(chess_engine::ThreeFold::add, stub_add)]
pub fn c15_make_move_is_a_legality_gate() {
    let mut bot = ChessBot::verif_new();
    let start = any_board();
    bot.set_board(start);
    assert!(same(&bot.board(), &start));
    let calls_after_set = unsafe { ADD_CALLS };
    let mv = anyv::mv();
    let g: bool = kani::any();
    let answer: bool = kani::any();
    unsafe {
        GATE = g;
        ADD_ANSWER = answer;
    }
    let r = bot.make_move(StableChessMove::from(mv));
    let mut want = start;
    unsafe { stub_move_unchecked_into(&start, mv, &mut want) };
    assert!(r.is_valid == g);
    if g {
        // applied: the reported board is the successor, counted once, flag passed through
        assert!(same(&bot.board(), &want));
        assert!(unsafe { ADD_CALLS } == calls_after_set + 1);
        assert!(unsafe { ADDED_ZOBRIST } == want.verif_parts().zobrist);
        assert!(r.is_three_fold_draw == answer);
    } else {
        // refused: position unchanged, nothing counted, no draw claimed
        assert!(same(&bot.board(), &start));
        assert!(unsafe { ADD_CALLS } == calls_after_set);
        assert!(!r.is_three_fold_draw);
    }
    kani::cover!(g && answer);
    kani::cover!(!g);
}

/// `set_board` (and the constructor) count the position they install, so that the third occurrence
/// of the starting position is flagged as well
#[kani::proof]
#[kani::stub(chess_engine::ThreeFold::add, stub_add)]
pub fn c15_installed_position_is_counted() {
    let mut bot = ChessBot::verif_new();
    // the constructor installs the standard position and counts it
    assert!(unsafe { ADD_CALLS } == 1);
    assert!(unsafe { ADDED_ZOBRIST } == Board::standard().verif_parts().zobrist);
    let start = any_board();
    bot.set_board(start);
    assert!(unsafe { ADD_CALLS } == 2);
    assert!(unsafe { ADDED_ZOBRIST } == start.verif_parts().zobrist);
    assert!(same(&bot.board(), &start));
}

/// NOT REGISTERED (prefix x15): does not finish - even a fully concrete sequence of four insertions
/// into the std HashMap ran past 25 minutes under CBMC. Kept as documentation of the attempt.
/// the real repetition table (std HashMap keyed by Board with the identity hasher): five
/// insertions, each of one of two distinct positions (symbolic choice): `add` answers true exactly
/// on the insertion that makes the third occurrence, `get` reports the running count
#[kani::proof]
#[kani::unwind(8)]
pub fn x15_threefold_flags_exactly_the_third_occurrence() {
    let a = Board::standard();
    let mut pa = a.verif_parts();
    pa.turn = chess_bitboard::Color::Black;
    let b = Board::verif_from_raw(*a.raw(), pa);
    assert!(a != b && a.zobrist() != b.zobrist());
    let mut t = ThreeFold::new();
    let mut count = [0u8; 2];
    let mut i = 0;
    while i < 5 {
        let pick_b: bool = kani::any();
        let r = if pick_b { t.add(b) } else { t.add(a) };
        count[pick_b as usize] += 1;
        assert!(r == (count[pick_b as usize] == 3));
        assert!(t.get(&a) == count[0] && t.get(&b) == count[1]);
        i += 1;
    }
    core::mem::forget(t);
    kani::cover!(count[0] == 3 && count[1] == 2);
}

