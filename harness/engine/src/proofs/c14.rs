//! C14 - scores form a strict total order matching game-theoretic preference (White's view).
use crate::anyv;
use chess_engine::Score;
use core::cmp::Ordering;

/// reference rank of a score: (class, key) compared lexicographically.
/// class: Min < black mates < numeric < white mates < Max.
/// black mate in n: slower is greater (key n); white mate in n: quicker is greater (key -n).
fn key(s: Score) -> (u8, i64) {
    match s {
        Score::Min => (0, 0),
        Score::BlackMateIn(n) => (1, n as i64),
        Score::Raw(x) => (2, x as i64),
        Score::WhiteMateIn(n) => (3, -(n as i64)),
        Score::Max => (4, 0),
    }
}
fn ref_cmp(a: Score, b: Score) -> Ordering {
    let (ka, kb) = (key(a), key(b));
    if ka.0 != kb.0 {
        if ka.0 < kb.0 { Ordering::Less } else { Ordering::Greater }
    } else if ka.1 < kb.1 {
        Ordering::Less
    } else if ka.1 > kb.1 {
        Ordering::Greater
    } else {
        Ordering::Equal
    }
}

#[kani::proof]
pub fn c14_matches_reference_order() {
    let a = anyv::score();
    let b = anyv::score();
    assert!(a.cmp(&b) == ref_cmp(a, b));
    assert!(a.partial_cmp(&b) == Some(a.cmp(&b)));
    assert!((a == b) == (a.cmp(&b) == Ordering::Equal));
    assert!((a != b) == (a.cmp(&b) != Ordering::Equal));
    assert!((a < b) == (a.cmp(&b) == Ordering::Less));
    assert!((a <= b) == (a.cmp(&b) != Ordering::Greater));
    assert!((a > b) == (a.cmp(&b) == Ordering::Greater));
    assert!((a >= b) == (a.cmp(&b) != Ordering::Less));
    assert!(a.max(b) == if b >= a { b } else { a });
    assert!(a.min(b) == if b < a { b } else { a });
    kani::cover!(a.cmp(&b) == Ordering::Equal);
    kani::cover!(a.cmp(&b) == Ordering::Less);
}

#[kani::proof]
pub fn c14_order_axioms() {
    let a = anyv::score();
    let b = anyv::score();
    let c = anyv::score();
    // antisymmetry / duality
    assert!(a.cmp(&b) == b.cmp(&a).reverse());
    // reflexive equality, equality is structural
    assert!(a.cmp(&a) == Ordering::Equal);
    // transitivity
    if a <= b && b <= c {
        assert!(a <= c);
    }
    if a < b && b <= c {
        assert!(a < c);
    }
    if a == b && b == c {
        assert!(a == c);
    }
    // totality: exactly one of <, ==, >
    let n = (a < b) as u8 + (a == b) as u8 + (a > b) as u8;
    assert!(n == 1);
}

#[kani::proof]
pub fn c14_preference_chain() {
    let n: u16 = kani::any();
    let m: u16 = kani::any();
    let x: i32 = kani::any();
    let y: i32 = kani::any();
    assert!(Score::WhiteMateIn(n) > Score::Raw(x));
    assert!(Score::Raw(x) > Score::BlackMateIn(m));
    assert!(Score::WhiteMateIn(n) > Score::BlackMateIn(m));
    assert!((Score::WhiteMateIn(n) > Score::WhiteMateIn(m)) == (n < m));
    assert!((Score::BlackMateIn(n) > Score::BlackMateIn(m)) == (n > m));
    assert!((Score::Raw(x) > Score::Raw(y)) == (x > y));
    let s = anyv::score();
    assert!(Score::Min <= s && s <= Score::Max);
    assert!((s == Score::Min) == matches!(s, Score::Min));
    assert!((s == Score::Max) == matches!(s, Score::Max));
    assert!(Score::Min < Score::BlackMateIn(n) && Score::WhiteMateIn(n) < Score::Max);
}
