//! C11 / C12 - the iterative-deepening root loop, for every expiry instant of the timeout.
//!
//! Assume-guarantee over the recursion. The real `Engine::search` / `search_with` run (root loop:
//! previous-best probe, capture stage, remaining moves, commit-on-completed-pass); what lies below
//! is abstracted:
//!  * `Board::legals()` returns a SYMBOLIC move list (any entries under the iterator's
//!    representation invariant; the same list on every call for the root, as the real one would);
//!    that the real list is exactly the legal moves is C01, that iterating it yields each once C10;
//!  * every `alphabeta` call (depth 1) is answered by an oracle through the hook
//!    `Timeout::verif_oracle`: an arbitrary score and an arbitrary number (0..=2) of timeout polls,
//!    under contract A: "if the timeout has not expired when I return, the score is not a
//!    sentinel (Min/Max)" - the real `alphabeta` level is checked against A in `c11_contract_a_*`;
//!  * the timeout counts polls and expires at a symbolic poll index k (monotone).
//! Kani's default checks are on (overflow of `depth += 1`, unwraps, slice bounds).
use crate::anyv;
use chess_bitboard::{BitBoard, Color, Pos};
use chess_engine::{Engine, Score, ThreeFold, Timeout};
use chess_movegen::{Board, ChessMove, MoveGen};
use core::cell::Cell;

// The engine logs through `tracing` macros. Even with tracing's `max_level_off` feature (the
// repository's own bot build) the macro bodies stay statically reachable, and tracing's callsite
// registration trips an internal assertion of the Kani 0.68 compiler (intrinsics.rs:243). The three
// functions every tracing macro funnels through are therefore stubbed: no event is ever enabled.
pub fn stub_interest(_c: &tracing::callsite::DefaultCallsite) -> tracing::subscriber::Interest {
    tracing::subscriber::Interest::never()
}
pub fn stub_is_enabled(_m: &tracing::Metadata<'static>, _i: tracing::subscriber::Interest) -> bool {
    false
}
pub fn stub_dispatch<'a>(_m: &'static tracing::Metadata<'static>, _f: &'a tracing::field::ValueSet<'_>)
where
    'a: 'a,
{
}
pub fn stub_get_default<T, F>(mut f: F) -> T
where
    F: FnMut(&tracing::Dispatch) -> T,
{
    f(&tracing::Dispatch::none())
}
#[macro_export]
macro_rules! engine_harness {
    ($(#[$a:meta])* pub fn $name:ident() $b:block) => {
        $(#[$a])*
        #[kani::stub(tracing::Event::dispatch, $crate::proofs::c11::stub_dispatch)]
        #[kani::stub(tracing::callsite::DefaultCallsite::interest, $crate::proofs::c11::stub_interest)]
        #[kani::stub(tracing::__macro_support::__is_enabled, $crate::proofs::c11::stub_is_enabled)]
        #[kani::stub(tracing::dispatcher::get_default, $crate::proofs::c11::stub_get_default)]
        pub fn $name() $b
    };
}

pub const NE: usize = 1; // entries of the symbolic root move list
pub const MAXMOVES: u32 = 2; // moves in the list (a promotion destination counts four)

#[derive(Clone, Copy)]
pub struct Entry {
    pub src: Pos,
    pub dst: BitBoard,
    pub promo: bool,
}
pub struct World {
    pub n: usize,
    pub e: [Entry; NE],
}
static mut WORLD: Option<World> = None;
/// passes started (= calls of legals()), and how often the probe move was searched: in the
/// current pass, at most in any earlier pass, and in pass 0
static mut PASSES: u32 = 0;
static mut PROBE: Option<ChessMove> = None;
static mut PROBE_THIS: u32 = 0;
static mut PROBE_MAX: u32 = 0;
static mut PROBE_PASS0: u32 = 0;

fn world() -> &'static World {
    unsafe { WORLD.as_ref().unwrap() }
}
/// membership of a move in the symbolic root list
pub fn in_list(m: ChessMove) -> bool {
    let w = world();
    let mut found = false;
    let mut i = 0;
    while i < w.n {
        found |= w.e[i].src == m.source && w.e[i].dst.contains(m.dest) && w.e[i].promo == m.piece.is_some();
        i += 1;
    }
    found
}
fn list_is_empty() -> bool {
    world().n == 0
}
fn any_world(own: BitBoard) -> World {
    let n: usize = kani::any();
    kani::assume(n <= NE);
    let mut e = [Entry { src: Pos::A1, dst: BitBoard::empty(), promo: false }; NE];
    let mut i = 0;
    while i < NE {
        let dst = BitBoard::from_u64(kani::any());
        // what the generator guarantees (C01): non-empty, never onto an own piece; and a bound
        // on the number of moves so that the stage loops unwind: <= 2 destinations per entry
        kani::assume(dst.any() && (dst & own).none() && dst.count() <= 2);
        e[i] = Entry { src: anyv::pos(), dst, promo: kani::any() };
        // a move belongs to one entry only
        let mut j = 0;
        while j < i {
            kani::assume(e[j].src != e[i].src);
            j += 1;
        }
        i += 1;
    }
    // bound on the number of moves, so that the stage loops unwind
    let mut total = 0u32;
    let mut i = 0;
    while i < n {
        total += e[i].dst.count() as u32 * if e[i].promo { 4 } else { 1 };
        i += 1;
    }
    kani::assume(total <= MAXMOVES);
    World { n, e }
}
/// stub of `Board::legals`: the root's list
fn stub_legals(_b: &Board) -> MoveGen {
    unsafe {
        // a new pass starts: close the bookkeeping of the previous one
        if PASSES == 1 {
            PROBE_PASS0 = PROBE_THIS;
        }
        if PROBE_THIS > PROBE_MAX {
            PROBE_MAX = PROBE_THIS;
        }
        PROBE_THIS = 0;
        PASSES += 1;
    }
    let w = world();
    let mut v = [(Pos::A1, BitBoard::empty(), false); NE];
    let mut i = 0;
    while i < NE {
        v[i] = (w.e[i].src, w.e[i].dst, w.e[i].promo);
        i += 1;
    }
    MoveGen::verif_from_entries(&v[..w.n], 0, !BitBoard::empty(), 0)
}

/// `ThreeFold::get` (a std HashMap lookup) answered by an arbitrary count: the root loop only
/// passes it on to the search below. (The real lookup cannot be compiled by Kani 0.68 at all:
/// hashbrown's SSE2 group code trips an internal compiler assertion, intrinsics.rs:243.)
fn stub_tf_get(_t: &ThreeFold, _b: &Board) -> u8 {
    kani::any()
}

/// `MoveGen::set_mask` replaced by its abstract effect: new mask, cursor rewound, entries kept.
/// The real function also compacts the entries with raw-pointer swaps (byte-wise swaps at
/// symbolic addresses: that alone made the root-loop query exceed 14 GB); what it means for the
/// moves the iterator yields is decided by C10's set_mask query (nothing lost, exactly the owned
/// moves with destination in the mask become visible), and `next` does not depend on the order.
fn stub_set_mask(g: &mut MoveGen, mask: BitBoard) {
    let n = g.verif_entries();
    let mut v = [(Pos::A1, BitBoard::empty(), false); NE];
    let mut i = 0;
    while i < n && i < NE {
        v[i] = g.verif_entry(i);
        i += 1;
    }
    let cursor = g.verif_promotion_cursor();
    *g = MoveGen::verif_from_entries(&v[..n], 0, mask, cursor);
}

/// counting timeout with the search oracle attached
pub struct Clock {
    pub polls: Cell<u32>,
    pub expire_at: u32,
    /// alternative expiry rule: never during the first pass, always from the second pass on
    pub expire_with_second_pass: bool,
    // bookkeeping of the oracle
    pub calls: Cell<u32>,
    pub illegal_call: Cell<bool>,
    pub mate_for: Option<Color>, // C12: whose mate-in-one answers are tracked
    pub saw_mate_answer: Cell<bool>,
    pub last_mate_move: Cell<Option<ChessMove>>,
}
impl Clock {
    fn expired(&self) -> bool {
        if self.expire_with_second_pass {
            unsafe { PASSES >= 2 }
        } else {
            self.polls.get() > self.expire_at
        }
    }
}
impl Timeout for Clock {
    fn is_complete(&self) -> bool {
        self.polls.set(self.polls.get() + 1);
        self.expired()
    }
    fn verif_real_search(&self, _current_depth: u16) {
        // every search call is answered by the oracle in these queries: cut the real body off
        // (an explicit cut, so that symbolic execution does not unfold the recursion)
        kani::assume(false);
    }
    fn verif_oracle(&self, mv: ChessMove, current_depth: u16) -> Option<Score> {
        // the search must only ever ask about moves of the position
        if !in_list(mv) || current_depth != 1 {
            self.illegal_call.set(true);
        }
        self.calls.set(self.calls.get() + 1);
        if Some(mv) == unsafe { PROBE } {
            unsafe { PROBE_THIS += 1 };
        }
        // the deeper search polls the timeout some number of times
        let extra: u32 = kani::any();
        kani::assume(extra <= 2);
        self.polls.set(self.polls.get() + extra);
        let s = anyv::score();
        // contract A
        if !self.expired() {
            kani::assume(!matches!(s, Score::Min | Score::Max));
        }
        if let Some(c) = self.mate_for {
            let mate1 = match c {
                Color::White => s == Score::WhiteMateIn(1),
                Color::Black => s == Score::BlackMateIn(1),
            };
            if mate1 && !self.expired() {
                self.saw_mate_answer.set(true);
                self.last_mate_move.set(Some(mv));
            }
        }
        Some(s)
    }
}

fn any_root_board() -> Board {
    // the root loop reads the side to move and the enemy's squares (capture mask) only
    use chess_movegen::raw::RawBoard;
    let colors = [anyv::bb(), anyv::bb()];
    kani::assume((colors[0] & colors[1]).none());
    let raw = RawBoard::verif_from_parts(colors, [anyv::bb(), anyv::bb(), anyv::bb(), anyv::bb(), anyv::bb(), anyv::bb()]);
    Board::verif_from_raw(
        raw,
        chess_movegen::verif::VerifParts {
            zobrist: kani::any(),
            turn: anyv::color(),
            castle_rights: 0,
            enpassant: None,
            half_move_clock: kani::any(),
            full_move_clock: kani::any(),
            pinned: anyv::bb(),
            checkers: anyv::bb(),
        },
    )
}

/// all expiry instants k <= KMAX; the loop polls at least once per pass, so it makes at most
/// KMAX + 2 passes
const KMAX: u32 = 2;

fn new_clock(k: u32, probe: ChessMove, mate_for: Option<Color>) -> Clock {
    unsafe { PROBE = Some(probe) };
    Clock {
        polls: Cell::new(0),
        expire_at: k,
        expire_with_second_pass: false,
        calls: Cell::new(0),
        illegal_call: Cell::new(false),
        mate_for,
        saw_mate_answer: Cell::new(false),
        last_mate_move: Cell::new(None),
    }
}

engine_harness! {
#[kani::proof]
#[kani::unwind(5)]
#[kani::stub(chess_movegen::Board::legals, stub_legals)]
#[kani::stub(chess_engine::ThreeFold::get, stub_tf_get)]
#[kani::stub(chess_movegen::MoveGen::set_mask, stub_set_mask)]
pub fn c11_root_loop_returns_a_legal_move_for_every_expiry_instant() {
    let board = any_root_board();
    // (Black to move runs the same generic code instantiated with the mirrored policy; the
    // policies' duality is C13. Both instantiations in one query exceeded 30 GB.)
    kani::assume(board.turn() == Color::White);
    let own = board[board.turn()];
    unsafe { WORLD = Some(any_world(own)) };
    let k: u32 = kani::any();
    kani::assume(k <= KMAX);
    let clock = new_clock(k, anyv::mv(), None);
    let tf = ThreeFold::default();
    let mut engine = Engine::default();
    let (mv, _score) = engine.search(&board, &tf, &clock);
    // terminated (we are here), within the pass bound, and only legal moves were ever searched
    assert!(!clock.illegal_call.get());
    match mv {
        // a returned move is a move of the position
        Some(m) => assert!(in_list(m)),
        None => {}
    }
    // no move is searched twice within one pass
    unsafe {
        assert!(PROBE_THIS <= 1 && PROBE_MAX <= 1);
    }
    if list_is_empty() {
        assert!(mv.is_none());
        assert!(clock.calls.get() == 0);
        // the search ends after the one empty pass, whatever the limit (it used to spin until
        // the limit and overflow the depth counter - see known_findings.json)
        assert!(unsafe { PASSES } == 1 && clock.polls.get() == 1);
    }
    kani::cover!(mv.is_some() && engine.max_depth >= 1);
    kani::cover!(mv.is_none() && !list_is_empty());
    kani::cover!(mv.is_none() && list_is_empty());
}
}
// harness: c11_root_loop_returns_a_legal_move_for_every_expiry_instant


/// The first pass alone: with a limit that cannot expire during it, a move is committed whenever
/// moves exist, every move of the position is searched exactly once, and when a second pass
/// starts the previous best move is searched first and still exactly once.
engine_harness! {
#[kani::proof]
#[kani::unwind(5)]
#[kani::stub(chess_movegen::Board::legals, stub_legals)]
#[kani::stub(chess_engine::ThreeFold::get, stub_tf_get)]
#[kani::stub(chess_movegen::MoveGen::set_mask, stub_set_mask)]
pub fn c11_first_pass_commits_and_visits_every_move_once() {
    let board = any_root_board();
    let own = board[board.turn()];
    unsafe { WORLD = Some(any_world(own)) };
    let probe = anyv::mv();
    // the limit cannot expire during pass 0 and expires as soon as pass 1 starts
    let mut clock = new_clock(0, probe, None);
    clock.expire_with_second_pass = true;
    kani::assume(!world().e[0].promo);
    let tf = ThreeFold::default();
    let mut engine = Engine::default();
    let (mv, _score) = engine.search(&board, &tf, &clock);
    assert!(!clock.illegal_call.get());
    kani::assume(!list_is_empty());
    assert!(mv.is_some());
    assert!(in_list(mv.unwrap()));
    // pass 0 searched every move of the position exactly once (and nothing else)
    unsafe {
        let pass0 = if PASSES >= 2 { PROBE_PASS0 } else { PROBE_THIS };
        assert!(pass0 == in_list(probe) as u32);
        assert!(PROBE_THIS <= 1 && PROBE_MAX <= 1);
    }
    kani::cover!(unsafe { PASSES } >= 2);
    kani::cover!(unsafe { PASSES } == 1);
}
}
// harness: c11_first_pass_commits_and_visits_every_move_once


// ------------------------------------------------------------------------------------- C12

/// If some root move's answer is "mate in one for the mover" and the first pass completes, the
/// search returns such a move with exactly that score; and a mate-in-one score for the mover is
/// only ever returned together with a move whose answer was mate in one.
engine_harness! {
#[kani::proof]
#[kani::unwind(5)]
#[kani::stub(chess_movegen::Board::legals, stub_legals)]
#[kani::stub(chess_engine::ThreeFold::get, stub_tf_get)]
#[kani::stub(chess_movegen::MoveGen::set_mask, stub_set_mask)]
pub fn c12_root_reports_mate_in_one_truthfully() {
    let board = any_root_board();
    let us = board.turn();
    let own = board[us];
    unsafe { WORLD = Some(any_world(own)) };
    let k: u32 = kani::any();
    kani::assume(k <= KMAX);
    let clock = new_clock(k, anyv::mv(), Some(us));
    let tf = ThreeFold::default();
    let mut engine = Engine::default();
    let (mv, score) = engine.search(&board, &tf, &clock);
    let mate1 = match us {
        Color::White => Score::WhiteMateIn(1),
        Color::Black => Score::BlackMateIn(1),
    };
    // truthfulness: reported mate in one => some searched move really answered mate in one
    if score == mate1 {
        assert!(clock.saw_mate_answer.get());
        assert!(mv.is_some());
    }
    // completeness: a mate-in-one answer seen in a pass that completed => reported
    // (the deepening stops at the first mate score, so a completed pass with such an answer
    // ends the search with it: nothing beats mate in one for the mover)
    if clock.saw_mate_answer.get() && mv.is_some() && !clock.expired() {
        assert!(score == mate1);
    }
    kani::cover!(score == mate1);
    kani::cover!(clock.saw_mate_answer.get() && score != mate1);
}
}
// harness: c12_root_reports_mate_in_one_truthfully


