//! C11 / C12 - the iterative-deepening search, for every expiry instant of the timeout.
//!
//! Assume-guarantee over the recursion. The real `Engine::search` / `search_with` run (root loop:
//! previous-best probe, capture stage, remaining moves, discard-on-expiry, commit-on-completed-
//! pass) and, in the `*_real_level` queries, ONE real level of `alphabeta` below it (terminal
//! detection, draw rules, leaf evaluation call, child loop with cutoff). What lies below is
//! abstracted, each abstraction licensed by another property's queries:
//!  * the move lists are the SET MODEL of the iterator (C10 shows the real `MoveGen` operations
//!    equal it; C01 that the generated list is exactly the legal moves): `legals` / `next` /
//!    `is_empty` / `set_mask` / `remove_move` are stubbed by model operations over a small list of
//!    symbolic moves (the real iterator's raw-pointer compaction alone exceeded 30 GB here);
//!  * search calls below the real level(s) are answered by an oracle through the hook
//!    `Timeout::verif_oracle`: an arbitrary score and 0..=2 timeout polls, under contract A ("if
//!    the timeout has not expired when I return, the score is not a sentinel") and M ("a mate
//!    score I return has distance >= my depth") - the real level is itself checked against A
//!    and M, which closes the induction over the recursion depth;
//!  * make-move returns an arbitrary board (C02), evaluation an arbitrary numeric score;
//!  * the timeout counts polls and expires at a symbolic poll index k (monotone).
use crate::anyv;
use chess_bitboard::{BitBoard, Color, Pos};
use chess_engine::{Engine, Score, ThreeFold, Timeout};
use chess_movegen::{Board, ChessMove, MoveGen};
use core::cell::Cell;

// The engine logs through `tracing` macros. Even with tracing's `max_level_off` feature (the
// repository's own bot build) the macro bodies stay statically reachable, and tracing's callsite
// registration trips an internal assertion of the Kani 0.68 compiler (intrinsics.rs:243). The three
// functions every tracing macro funnels through are therefore stubbed: no event is ever enabled.
pub fn stub_interest(_c: &tracing::callsite::DefaultCallsite) -> tracing::subscriber::Interest {
    tracing::subscriber::Interest::never()
}
pub fn stub_is_enabled(_m: &tracing::Metadata<'static>, _i: tracing::subscriber::Interest) -> bool {
    false
}
pub fn stub_dispatch<'a>(_m: &'static tracing::Metadata<'static>, _f: &'a tracing::field::ValueSet<'_>)
where
    'a: 'a,
{
}
pub fn stub_get_default<T, F>(mut f: F) -> T
where
    F: FnMut(&tracing::Dispatch) -> T,
{
    f(&tracing::Dispatch::none())
}
#[macro_export]
macro_rules! engine_harness {
    ($(#[$a:meta])* pub fn $name:ident() $b:block) => {
        $(#[$a])*
        #[kani::stub(tracing::Event::dispatch, $crate::proofs::c11::stub_dispatch)]
        #[kani::stub(tracing::callsite::DefaultCallsite::interest, $crate::proofs::c11::stub_interest)]
        #[kani::stub(tracing::__macro_support::__is_enabled, $crate::proofs::c11::stub_is_enabled)]
        #[kani::stub(tracing::dispatcher::get_default, $crate::proofs::c11::stub_get_default)]
        pub fn $name() $b
    };
}


pub const NM: usize = 3; // moves in a symbolic move list

/// set model of one move list: the moves, which are still to come, the destination mask
#[derive(Clone, Copy)]
pub struct List {
    pub n: usize,
    pub mv: [ChessMove; NM],
    pub taken: [bool; NM],
    pub mask: BitBoard,
}
impl List {
    fn any() -> List {
        let n: usize = kani::any();
        kani::assume(n <= NM);
        let mv = [anyv::mv(), anyv::mv(), anyv::mv()];
        // a list never holds a move twice
        kani::assume(mv[0] != mv[1] && mv[0] != mv[2] && mv[1] != mv[2]);
        List { n, mv, taken: [false; NM], mask: !BitBoard::empty() }
    }
    fn contains(&self, m: ChessMove) -> bool {
        let mut f = false;
        let mut i = 0;
        while i < self.n {
            f |= self.mv[i] == m;
            i += 1;
        }
        f
    }
}
const ROOT: usize = 0;
const CHILD: usize = 1;
static mut LISTS: [Option<List>; 2] = [None, None];
/// bookkeeping: passes started (= root legals() calls), how often the probe move was searched
static mut PASSES: u32 = 0;
static mut PROBE: Option<ChessMove> = None;
static mut PROBE_THIS: u32 = 0;
static mut PROBE_MAX: u32 = 0;
static mut PROBE_PASS0: u32 = 0;
/// tag carried by boards that the make-move stub returns (children of the root)
const CHILD_TAG: u64 = 0x5eed_c41d_0000_0001;

fn list(which: usize) -> &'static mut List {
    unsafe { LISTS[which].as_mut().unwrap() }
}
pub fn in_list(m: ChessMove) -> bool {
    list(ROOT).contains(m)
}
/// the iterator value only carries which model it stands for (its promotion cursor, 0 or 1)
fn handle(which: usize) -> MoveGen {
    MoveGen::verif_from_entries(&[], 0, !BitBoard::empty(), which)
}
fn stub_legals(b: &Board) -> MoveGen {
    if b.verif_parts().zobrist == CHILD_TAG {
        // a fresh, arbitrary list for the child position
        unsafe { LISTS[CHILD] = Some(List::any()) };
        return handle(CHILD);
    }
    unsafe {
        // a new pass of the root loop: same moves again, nothing taken, full mask
        if PASSES == 1 {
            PROBE_PASS0 = PROBE_THIS;
        }
        if PROBE_THIS > PROBE_MAX {
            PROBE_MAX = PROBE_THIS;
        }
        PROBE_THIS = 0;
        PASSES += 1;
    }
    let l = list(ROOT);
    l.taken = [false; NM];
    l.mask = !BitBoard::empty();
    handle(ROOT)
}
fn stub_next(g: &mut MoveGen) -> Option<ChessMove> {
    let l = list(g.verif_promotion_cursor());
    let mut i = 0;
    while i < l.n {
        if !l.taken[i] && l.mask.contains(l.mv[i].dest) {
            l.taken[i] = true;
            return Some(l.mv[i]);
        }
        i += 1;
    }
    None
}
fn stub_is_empty(g: &MoveGen) -> bool {
    let l = list(g.verif_promotion_cursor());
    let mut any = false;
    let mut i = 0;
    while i < l.n {
        any |= !l.taken[i] && l.mask.contains(l.mv[i].dest);
        i += 1;
    }
    !any
}
fn stub_set_mask(g: &mut MoveGen, mask: BitBoard) {
    list(g.verif_promotion_cursor()).mask = mask;
}
fn stub_remove_move(g: &mut MoveGen, m: ChessMove) -> bool {
    let l = list(g.verif_promotion_cursor());
    let mut found = false;
    let mut i = 0;
    while i < l.n {
        if l.mv[i] == m && !l.taken[i] {
            l.taken[i] = true;
            found = true;
        }
        i += 1;
    }
    found
}
/// make-move below the root: an arbitrary board (its relation to the parent is C02's subject),
/// tagged so that the list stub can tell it from the root
unsafe fn stub_move_unchecked(_b: &Board, _mv: ChessMove) -> Board {
    let mut b = any_root_board();
    let mut parts = b.verif_parts();
    parts.zobrist = CHILD_TAG;
    b = Board::verif_from_raw(*b.raw(), parts);
    b
}
fn stub_eval(_e: &mut Engine, _b: &Board, _d: u16) -> Score {
    Score::Raw(kani::any())
}
fn stub_tf_get(_t: &ThreeFold, _b: &Board) -> u8 {
    kani::any()
}
/// counting timeout with the search oracle attached
pub struct Clock {
    pub polls: Cell<u32>,
    pub expire_at: u32,
    /// alternative expiry rule: never during the first pass, always from the second pass on
    pub expire_with_second_pass: bool,
    /// search calls at this depth and deeper are answered by the oracle
    pub oracle_from_depth: u16,
    pub calls: Cell<u32>,
    pub illegal_call: Cell<bool>,
    pub mate_for: Option<Color>,
    pub saw_mate_answer: Cell<bool>,
}
impl Clock {
    fn expired(&self) -> bool {
        if self.expire_with_second_pass {
            // never later than the start of the second pass; earlier if the poll index says so
            unsafe { PASSES >= 2 || self.polls.get() > self.expire_at }
        } else {
            self.polls.get() > self.expire_at
        }
    }
}
impl Timeout for Clock {
    fn is_complete(&self) -> bool {
        self.polls.set(self.polls.get() + 1);
        self.expired()
    }
    fn verif_real_search(&self, current_depth: u16) {
        // below the oracle depth nothing runs for real: an explicit cut, so that symbolic
        // execution does not unfold the recursion
        if current_depth >= self.oracle_from_depth {
            kani::assume(false);
        }
    }
    fn verif_oracle(&self, mv: ChessMove, current_depth: u16) -> Option<Score> {
        if current_depth == 1 {
            // the root must only ever search moves of the position
            if !in_list(mv) {
                self.illegal_call.set(true);
            }
            self.calls.set(self.calls.get() + 1);
            if Some(mv) == unsafe { PROBE } {
                unsafe { PROBE_THIS += 1 };
            }
        }
        if current_depth < self.oracle_from_depth {
            return None;
        }
        // the deeper search polls the timeout some number of times
        let extra: u32 = kani::any();
        kani::assume(extra <= 2);
        self.polls.set(self.polls.get() + extra);
        let s = anyv::score();
        // contract A
        if !self.expired() {
            kani::assume(!matches!(s, Score::Min | Score::Max));
        }
        // contract M: a mate found at depth d has distance >= d
        match s {
            Score::WhiteMateIn(n) | Score::BlackMateIn(n) => kani::assume(n >= current_depth),
            _ => {}
        }
        if let Some(c) = self.mate_for {
            let mate1 = match c {
                Color::White => s == Score::WhiteMateIn(1),
                Color::Black => s == Score::BlackMateIn(1),
            };
            if current_depth == 1 && mate1 && !self.expired() {
                self.saw_mate_answer.set(true);
            }
        }
        Some(s)
    }
}

pub fn any_root_board() -> Board {
    // the search reads side to move, the piece sets (capture masks, capture test) and the clock
    use chess_movegen::raw::RawBoard;
    let colors = [anyv::bb(), anyv::bb()];
    kani::assume((colors[0] & colors[1]).none());
    let raw = RawBoard::verif_from_parts(colors, [anyv::bb(), anyv::bb(), anyv::bb(), anyv::bb(), anyv::bb(), anyv::bb()]);
    Board::verif_from_raw(
        raw,
        chess_movegen::verif::VerifParts {
            zobrist: 0,
            turn: anyv::color(),
            castle_rights: 0,
            enpassant: None,
            half_move_clock: kani::any(),
            full_move_clock: kani::any(),
            pinned: anyv::bb(),
            checkers: anyv::bb(),
        },
    )
}

const KMAX: u32 = 2;

fn new_clock(k: u32, probe: ChessMove, mate_for: Option<Color>, oracle_from_depth: u16) -> Clock {
    unsafe { PROBE = Some(probe) };
    Clock {
        polls: Cell::new(0),
        expire_at: k,
        expire_with_second_pass: false,
        oracle_from_depth,
        calls: Cell::new(0),
        illegal_call: Cell::new(false),
        mate_for,
        saw_mate_answer: Cell::new(false),
    }
}

macro_rules! search_harness {
    ($(#[$a:meta])* pub fn $name:ident() $b:block) => {
        $crate::engine_harness! {
            $(#[$a])*
            #[kani::stub(chess_movegen::Board::legals, stub_legals)]
            #[kani::stub(<chess_movegen::MoveGen as core::iter::Iterator>::next, stub_next)]
            #[kani::stub(chess_movegen::MoveGen::is_empty, stub_is_empty)]
            #[kani::stub(chess_movegen::MoveGen::set_mask, stub_set_mask)]
            #[kani::stub(chess_movegen::MoveGen::remove_move, stub_remove_move)]
            #[kani::stub(chess_movegen::Board::move_unchecked, stub_move_unchecked)]
            #[kani::stub(chess_engine::Engine::eval, stub_eval)]
            #[kani::stub(chess_engine::ThreeFold::get, stub_tf_get)]
            pub fn $name() $b
        }
    };
}

fn setup_root() -> Board {
    let board = any_root_board();
    unsafe { LISTS[ROOT] = Some(List::any()) };
    board
}

search_harness! {
#[kani::proof]
#[kani::unwind(5)]
pub fn c11_root_loop_returns_a_legal_move_for_every_expiry_instant() {
    let board = setup_root();
    let k: u32 = kani::any();
    kani::assume(k <= KMAX);
    let clock = new_clock(k, anyv::mv(), None, 1);
    let tf = ThreeFold::default();
    let mut engine = Engine::default();
    let (mv, _score) = engine.search(&board, &tf, &clock);
    // terminated (we are here); only moves of the position were ever searched
    assert!(!clock.illegal_call.get());
    if let Some(m) = mv {
        assert!(in_list(m));
    }
    // no move is searched twice within one pass
    unsafe {
        assert!(PROBE_THIS <= 1 && PROBE_MAX <= 1);
    }
    if list(ROOT).n == 0 {
        assert!(mv.is_none());
        assert!(clock.calls.get() == 0);
        // the search ends after the one empty pass, whatever the limit
        assert!(unsafe { PASSES } == 1 && clock.polls.get() == 1);
    }
    kani::cover!(mv.is_some());
    kani::cover!(mv.is_none() && list(ROOT).n > 0);
    kani::cover!(mv.is_none() && list(ROOT).n == 0);
}
}
// harness: c11_root_loop_returns_a_legal_move_for_every_expiry_instant

search_harness! {
#[kani::proof]
#[kani::unwind(5)]
pub fn c11_first_pass_commits_and_visits_every_move_once() {
    let board = setup_root();
    let probe = anyv::mv();
    // the limit cannot expire during pass 0 and expires as soon as pass 1 starts
    let mut clock = new_clock(u32::MAX, probe, None, 1);
    clock.expire_with_second_pass = true;
    let tf = ThreeFold::default();
    let mut engine = Engine::default();
    let (mv, _score) = engine.search(&board, &tf, &clock);
    assert!(!clock.illegal_call.get());
    kani::assume(list(ROOT).n > 0);
    assert!(mv.is_some());
    assert!(in_list(mv.unwrap()));
    // pass 0 searched every move of the position exactly once (and nothing else)
    unsafe {
        let pass0 = if PASSES >= 2 { PROBE_PASS0 } else { PROBE_THIS };
        assert!(pass0 == in_list(probe) as u32);
        assert!(PROBE_THIS <= 1 && PROBE_MAX <= 1);
    }
    kani::cover!(unsafe { PASSES } >= 2);
    kani::cover!(unsafe { PASSES } == 1);
}
}
// harness: c11_first_pass_commits_and_visits_every_move_once

/// One REAL level of alphabeta under the real root loop (oracle from depth 2): the result of the
/// whole search still obeys C11, and the real level satisfies contracts A and M that the root
/// queries assume of the oracle - observed at the root: a committed result is never a sentinel,
/// and a committed mate score never has distance 0.
search_harness! {
#[kani::proof]
#[kani::unwind(8)]
pub fn c11_real_level_obeys_the_oracle_contracts_t() {
    let board = setup_root();
    kani::assume(list(ROOT).n <= 1);
    // expiry: any poll index up to 3 (inside the child loop of the real level included)
    let k: u32 = kani::any();
    kani::assume(k <= 6);
    let mut clock = new_clock(k, anyv::mv(), None, 2);
    clock.expire_with_second_pass = true;
    let tf = ThreeFold::default();
    let mut engine = Engine::default();
    let (mv, score) = engine.search(&board, &tf, &clock);
    assert!(!clock.illegal_call.get());
    if let Some(m) = mv {
        assert!(in_list(m));
        // contract A seen from the root: a committed move comes with a real score
        assert!(!matches!(score, Score::Min | Score::Max));
        // contract M: mate distances count plies from the root, starting at 1
        match score {
            Score::WhiteMateIn(n) | Score::BlackMateIn(n) => assert!(n >= 1),
            _ => {}
        }
    }
    if list(ROOT).n == 0 {
        assert!(mv.is_none());
    }
    kani::cover!(mv.is_some());
    kani::cover!(matches!(score, Score::WhiteMateIn(1)));
}
}
// harness: c11_real_level_obeys_the_oracle_contracts_t

// ------------------------------------------------------------------------------------- C12

search_harness! {
#[kani::proof]
#[kani::unwind(5)]
pub fn c12_root_reports_mate_in_one_truthfully() {
    let board = setup_root();
    let us = board.turn();
    let k: u32 = kani::any();
    kani::assume(k <= KMAX);
    let clock = new_clock(k, anyv::mv(), Some(us), 1);
    let tf = ThreeFold::default();
    let mut engine = Engine::default();
    let (mv, score) = engine.search(&board, &tf, &clock);
    let mate1 = match us {
        Color::White => Score::WhiteMateIn(1),
        Color::Black => Score::BlackMateIn(1),
    };
    // truthfulness: reported mate in one => some searched move really answered mate in one
    if score == mate1 {
        assert!(clock.saw_mate_answer.get());
        assert!(mv.is_some());
    }
    // completeness: a mate-in-one answer in a search that committed a result and was not cut
    // short => reported (nothing beats mate in one for the mover; deepening stops on it)
    if clock.saw_mate_answer.get() && mv.is_some() && !clock.expired() {
        assert!(score == mate1);
    }
    kani::cover!(score == mate1);
    kani::cover!(clock.saw_mate_answer.get() && score != mate1);
}
}
// harness: c12_root_reports_mate_in_one_truthfully

/// the REAL terminal detection one level below the root: with a single root move whose child
/// position has no legal move, the search reports mate in one for the mover exactly when the
/// child is in check, and a draw score otherwise; with legal replies it never reports mate in one
search_harness! {
#[kani::proof]
#[kani::unwind(8)]
pub fn c12_real_terminal_detection_below_the_root_t() {
    let board = setup_root();
    kani::assume(list(ROOT).n == 1);
    let us = board.turn();
    // the first pass cannot be cut short
    let mut clock = new_clock(u32::MAX, anyv::mv(), None, 2);
    clock.expire_with_second_pass = true;
    let tf = ThreeFold::default();
    let mut engine = Engine::default();
    // what the single child position looks like is read back from the stubs' last child
    let (mv, score) = engine.search(&board, &tf, &clock);
    assert!(mv == Some(list(ROOT).mv[0]));
    let mate1 = match us {
        Color::White => Score::WhiteMateIn(1),
        Color::Black => Score::BlackMateIn(1),
    };
    let wrong_colour_mate1 = match us {
        Color::White => Score::BlackMateIn(1),
        Color::Black => Score::WhiteMateIn(1),
    };
    // the mover can never be the one who is mated in one ply of his own
    assert!(score != wrong_colour_mate1);
    let child = unsafe { LISTS[CHILD] };
    if let Some(c) = child {
        if unsafe { PASSES } == 1 || score == mate1 {
            // (the child list of the LAST real call; with a mate score the search stopped after
            // pass 0, so it is pass 0's child)
            if c.n > 0 {
                assert!(score != mate1);
            }
        }
    }
    kani::cover!(score == mate1);
    kani::cover!(score == Score::Raw(0));
}
}
// harness: c12_real_terminal_detection_below_the_root_t
