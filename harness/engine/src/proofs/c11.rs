//! C11 / C12 - the iterative-deepening search, for every expiry instant of the timeout.
//!
//! Assume-guarantee over the recursion. The real `Engine::search` / `search_with` run (root loop:
//! previous-best probe, capture stage, remaining moves, discard-on-expiry, commit-on-completed-
//! pass) and, in the `*_real_level` queries, ONE real level of `alphabeta` below it (terminal
//! detection, draw rules, leaf evaluation call, child loop with cutoff). What lies below is
//! abstracted, each abstraction licensed by another property's queries:
//!  * the move lists are the SET MODEL of the iterator (C10 shows the real `MoveGen` operations
//!    equal it; C01 that the generated list is exactly the legal moves): `legals` / `next` /
//!    `is_empty` / `set_mask` / `remove_move` are stubbed by model operations over a small list of
//!    symbolic moves (the real iterator's raw-pointer compaction alone exceeded 30 GB here);
//!  * search calls below the real level(s) are answered by an oracle through the hook
//!    `Timeout::verif_oracle`: an arbitrary score and 0..=2 timeout polls, under contract A ("if
//!    the timeout has not expired when I return, the score is not a sentinel") and M ("a mate
//!    score I return has distance >= my depth") - the real level is itself checked against A
//!    and M, which closes the induction over the recursion depth;
//!  * make-move returns an arbitrary board (C02), evaluation an arbitrary numeric score;
//!  * the timeout counts polls and expires at a symbolic poll index k (monotone).
use crate::anyv;
use chess_bitboard::{BitBoard, Color, Pos};
use chess_engine::{Engine, Score, ThreeFold, Timeout};
use chess_movegen::{Board, ChessMove, MoveGen};
use core::cell::Cell;

// The engine logs through `tracing` macros. Even with tracing's `max_level_off` feature (the
// repository's own bot build) the macro bodies stay statically reachable, and tracing's callsite
// registration trips an internal assertion of the Kani 0.68 compiler (intrinsics.rs:243). The three
// functions every tracing macro funnels through are therefore stubbed: no event is ever enabled.
pub fn stub_interest(_c: &tracing::callsite::DefaultCallsite) -> tracing::subscriber::Interest {
    tracing::subscriber::Interest::never()
}
pub fn stub_is_enabled(_m: &tracing::Metadata<'static>, _i: tracing::subscriber::Interest) -> bool {
    false
}
pub fn stub_dispatch<'a>(_m: &'static tracing::Metadata<'static>, _f: &'a tracing::field::ValueSet<'_>)
where
    'a: 'a,
{
}
pub fn stub_get_default<T, F>(mut f: F) -> T
where
    F: FnMut(&tracing::Dispatch) -> T,
{
    f(&tracing::Dispatch::none())
}
#[macro_export]
macro_rules! engine_harness {
    ($(#[$a:meta])* pub fn $name:ident() $b:block) => {
        $(#[$a])*
        #[kani::stub(tracing::Event::dispatch, $crate::proofs::c11::stub_dispatch)]
        #[kani::stub(tracing::callsite::DefaultCallsite::interest, $crate::proofs::c11::stub_interest)]
        #[kani::stub(tracing::__macro_support::__is_enabled, $crate::proofs::c11::stub_is_enabled)]
        #[kani::stub(tracing::dispatcher::get_default, $crate::proofs::c11::stub_get_default)]
        pub fn $name() $b
    };
}


pub const NM: usize = 3; // moves in a symbolic move list

/// set model of one move list: the moves, which are still to come, the destination mask
#[derive(Clone, Copy)]
pub struct List {
    pub n: usize,
    pub mv: [ChessMove; NM],
    pub taken: [bool; NM],
    pub mask: BitBoard,
}
impl List {
    fn any() -> List {
        let n: usize = kani::any();
        kani::assume(n <= NM);
        let mv = [anyv::mv(), anyv::mv(), anyv::mv()];
        // a list never holds a move twice
        kani::assume(mv[0] != mv[1] && mv[0] != mv[2] && mv[1] != mv[2]);
        List { n, mv, taken: [false; NM], mask: !BitBoard::empty() }
    }
    fn contains(&self, m: ChessMove) -> bool {
        let mut f = false;
        let mut i = 0;
        while i < self.n {
            f |= self.mv[i] == m;
            i += 1;
        }
        f
    }
}
const ROOT: usize = 0;
const CHILD: usize = 1;
static mut LISTS: [Option<List>; 2] = [None, None];
/// bookkeeping: passes started (= root legals() calls), how often the probe move was searched
static mut PASSES: u32 = 0;
static mut PROBE: Option<ChessMove> = None;
static mut PROBE_THIS: u32 = 0;
static mut PROBE_MAX: u32 = 0;
static mut PROBE_PASS0: u32 = 0;
/// what the oracle answered at depth 1, per pass (pass index = PASSES - 1) and call order
const MAXPASS: usize = 6;
static mut ANSWERS: [[Option<(ChessMove, Score)>; NM]; MAXPASS] = [[None; NM]; MAXPASS];
static mut ANSWERED: [usize; MAXPASS] = [0; MAXPASS];
fn record_answer(mv: ChessMove, s: Score) {
    unsafe {
        let p = (PASSES - 1) as usize;
        if p < MAXPASS && ANSWERED[p] < NM {
            ANSWERS[p][ANSWERED[p]] = Some((mv, s));
            ANSWERED[p] += 1;
        }
    }
}
/// was (mv, s) one of the answers given during pass p
fn answered_in_pass(p: usize, mv: ChessMove, s: Score) -> bool {
    let mut f = false;
    let mut i = 0;
    while i < NM {
        f |= unsafe { ANSWERS[p][i] } == Some((mv, s));
        i += 1;
    }
    f
}
/// tag carried by boards that the make-move stub returns (children of the root)
const CHILD_TAG: u64 = 0x5eed_c41d_0000_0001;

fn list(which: usize) -> &'static mut List {
    unsafe { LISTS[which].as_mut().unwrap() }
}
pub fn in_list(m: ChessMove) -> bool {
    list(ROOT).contains(m)
}
/// the iterator value only carries which model it stands for (its promotion cursor, 0 or 1)
fn handle(which: usize) -> MoveGen {
    MoveGen::verif_from_entries(&[], 0, !BitBoard::empty(), which)
}
fn stub_legals(b: &Board) -> MoveGen {
    if b.verif_parts().zobrist == CHILD_TAG {
        // a fresh, arbitrary list for the child position (at most two replies)
        let mut l = List::any();
        kani::assume(l.n <= 2);
        unsafe { LISTS[CHILD] = Some(l) };
        return handle(CHILD);
    }
    unsafe {
        // a new pass of the root loop: same moves again, nothing taken, full mask
        if PASSES == 1 {
            PROBE_PASS0 = PROBE_THIS;
        }
        if PROBE_THIS > PROBE_MAX {
            PROBE_MAX = PROBE_THIS;
        }
        PROBE_THIS = 0;
        PASSES += 1;
    }
    let l = list(ROOT);
    l.taken = [false; NM];
    l.mask = !BitBoard::empty();
    handle(ROOT)
}
fn stub_next(g: &mut MoveGen) -> Option<ChessMove> {
    let l = list(g.verif_promotion_cursor());
    let mut i = 0;
    while i < l.n {
        if !l.taken[i] && l.mask.contains(l.mv[i].dest) {
            l.taken[i] = true;
            return Some(l.mv[i]);
        }
        i += 1;
    }
    None
}
fn stub_is_empty(g: &MoveGen) -> bool {
    let l = list(g.verif_promotion_cursor());
    let mut any = false;
    let mut i = 0;
    while i < l.n {
        any |= !l.taken[i] && l.mask.contains(l.mv[i].dest);
        i += 1;
    }
    !any
}
fn stub_set_mask(g: &mut MoveGen, mask: BitBoard) {
    list(g.verif_promotion_cursor()).mask = mask;
}
fn stub_remove_move(g: &mut MoveGen, m: ChessMove) -> bool {
    let l = list(g.verif_promotion_cursor());
    let mut found = false;
    let mut i = 0;
    while i < l.n {
        if l.mv[i] == m && !l.taken[i] {
            l.taken[i] = true;
            found = true;
        }
        i += 1;
    }
    found
}
/// make-move below the root: an arbitrary board (its relation to the parent is C02's subject),
/// tagged so that the list stub can tell it from the root
unsafe fn stub_move_unchecked(_b: &Board, _mv: ChessMove) -> Board {
    let mut b = any_root_board();
    let mut parts = b.verif_parts();
    parts.zobrist = CHILD_TAG;
    b = Board::verif_from_raw(*b.raw(), parts);
    unsafe {
        CHILD_IN_CHECK = b.in_check();
        CHILD_BOARD = Some(b);
    }
    b
}
static mut CHILD_IN_CHECK: bool = false;
static mut CHILD_BOARD: Option<Board> = None;
fn stub_eval(_e: &mut Engine, _b: &Board, _d: u16) -> Score {
    Score::Raw(kani::any())
}
fn stub_tf_get(_t: &ThreeFold, _b: &Board) -> u8 {
    kani::any()
}
/// counting timeout with the search oracle attached
pub struct Clock {
    pub polls: Cell<u32>,
    pub expire_at: u32,
    /// alternative expiry rule: never during the first pass, always from the second pass on
    pub expire_with_second_pass: bool,
    /// search calls at this depth and deeper are answered by the oracle
    pub oracle_from_depth: u16,
    /// alternative rule (used when the depth is symbolic): this many calls run for real, every
    /// later one is answered by the oracle - a CONCRETE counter, so that symbolic execution sees
    /// syntactically where the recursion stops
    pub real_calls_left: Cell<u32>,
    pub count_rule: bool,
    pub calls: Cell<u32>,
    pub illegal_call: Cell<bool>,
    pub mate_for: Option<Color>,
    pub saw_mate_answer: Cell<bool>,
}
impl Clock {
    fn expired(&self) -> bool {
        if self.expire_with_second_pass {
            // never later than the start of the second pass; earlier if the poll index says so
            unsafe { PASSES >= 2 || self.polls.get() > self.expire_at }
        } else {
            self.polls.get() > self.expire_at
        }
    }
}
impl Timeout for Clock {
    fn is_complete(&self) -> bool {
        self.polls.set(self.polls.get() + 1);
        self.expired()
    }
    fn verif_real_search(&self, current_depth: u16) {
        // below the oracle depth nothing runs for real: an explicit cut, so that symbolic
        // execution does not unfold the recursion
        if self.count_rule {
            if self.real_calls_left.get() == 0 {
                kani::assume(false);
            }
            self.real_calls_left.set(self.real_calls_left.get() - 1);
        } else if current_depth >= self.oracle_from_depth {
            kani::assume(false);
        }
    }
    fn verif_oracle(&self, mv: ChessMove, current_depth: u16) -> Option<Score> {
        if current_depth == 1 {
            // the root must only ever search moves of the position
            if !in_list(mv) {
                self.illegal_call.set(true);
            }
            self.calls.set(self.calls.get() + 1);
            if Some(mv) == unsafe { PROBE } {
                unsafe { PROBE_THIS += 1 };
            }
        }
        if self.count_rule {
            if self.real_calls_left.get() > 0 {
                return None;
            }
        } else if current_depth < self.oracle_from_depth {
            return None;
        }
        // the deeper search polls the timeout some number of times
        let extra: u32 = kani::any();
        kani::assume(extra <= 2);
        self.polls.set(self.polls.get() + extra);
        let s = anyv::score();
        // contract A
        if !self.expired() {
            kani::assume(!matches!(s, Score::Min | Score::Max));
        }
        // contract M: a mate found at depth d has distance >= d
        match s {
            Score::WhiteMateIn(n) | Score::BlackMateIn(n) => kani::assume(n >= current_depth),
            _ => {}
        }
        if current_depth == 1 {
            record_answer(mv, s);
        }
        if let Some(c) = self.mate_for {
            let mate1 = match c {
                Color::White => s == Score::WhiteMateIn(1),
                Color::Black => s == Score::BlackMateIn(1),
            };
            if current_depth == 1 && mate1 && !self.expired() {
                self.saw_mate_answer.set(true);
            }
        }
        Some(s)
    }
}

pub fn any_root_board() -> Board {
    // the search reads side to move, the piece sets (capture masks, capture test) and the clock
    use chess_movegen::raw::RawBoard;
    let colors = [anyv::bb(), anyv::bb()];
    kani::assume((colors[0] & colors[1]).none());
    let pieces = [anyv::bb(), anyv::bb(), anyv::bb(), anyv::bb(), anyv::bb(), anyv::bb()];
    // every occupied square holds a piece and vice versa (what every constructor guarantees, C06)
    kani::assume((pieces[0] | pieces[1] | pieces[2] | pieces[3] | pieces[4] | pieces[5]) == (colors[0] | colors[1]));
    let raw = RawBoard::verif_from_parts(colors, pieces);
    Board::verif_from_raw(
        raw,
        chess_movegen::verif::VerifParts {
            zobrist: 0,
            turn: anyv::color(),
            castle_rights: 0,
            enpassant: None,
            half_move_clock: kani::any(),
            full_move_clock: kani::any(),
            pinned: anyv::bb(),
            checkers: anyv::bb(),
        },
    )
}

const KMAX: u32 = 2;

fn new_clock(k: u32, probe: ChessMove, mate_for: Option<Color>, oracle_from_depth: u16) -> Clock {
    unsafe { PROBE = Some(probe) };
    Clock {
        polls: Cell::new(0),
        expire_at: k,
        expire_with_second_pass: false,
        oracle_from_depth,
        real_calls_left: Cell::new(0),
        count_rule: false,
        calls: Cell::new(0),
        illegal_call: Cell::new(false),
        mate_for,
        saw_mate_answer: Cell::new(false),
    }
}

macro_rules! search_harness {
    ($(#[$a:meta])* pub fn $name:ident() $b:block) => {
        $crate::engine_harness! {
            $(#[$a])*
            #[kani::stub(chess_movegen::Board::legals, stub_legals)]
            #[kani::stub(<chess_movegen::MoveGen as core::iter::Iterator>::next, stub_next)]
            #[kani::stub(chess_movegen::MoveGen::is_empty, stub_is_empty)]
            #[kani::stub(chess_movegen::MoveGen::set_mask, stub_set_mask)]
            #[kani::stub(chess_movegen::MoveGen::remove_move, stub_remove_move)]
            #[kani::stub(chess_movegen::Board::move_unchecked, stub_move_unchecked)]
            #[kani::stub(chess_engine::Engine::eval, stub_eval)]
            #[kani::stub(chess_engine::ThreeFold::get, stub_tf_get)]
            pub fn $name() $b
        }
    };
}

fn setup_root() -> Board {
    let board = any_root_board();
    unsafe { LISTS[ROOT] = Some(List::any()) };
    board
}

search_harness! {
#[kani::proof]
#[kani::unwind(5)]
pub fn c11_root_loop_returns_a_legal_move_for_every_expiry_instant() {
    let board = setup_root();
    let k: u32 = kani::any();
    kani::assume(k <= KMAX);
    let clock = new_clock(k, anyv::mv(), None, 1);
    let tf = ThreeFold::default();
    let mut engine = Engine::default();
    let (mv, _score) = engine.search(&board, &tf, &clock);
    // terminated (we are here); only moves of the position were ever searched
    assert!(!clock.illegal_call.get());
    if let Some(m) = mv {
        assert!(in_list(m));
    }
    // no move is searched twice within one pass
    unsafe {
        assert!(PROBE_THIS <= 1 && PROBE_MAX <= 1);
    }
    // the result is the result of the LAST COMPLETED pass, never of one the limit cut short:
    // the last started pass completed iff the limit has not expired by the time the search
    // returns (expiry is monotone); otherwise the pass before it is the last completed one
    if let Some(m) = mv {
        let passes = unsafe { PASSES } as usize;
        let expired = clock.expired();
        assert!(passes >= 1 && (!expired || passes >= 2));
        let committed = if expired { passes - 2 } else { passes - 1 };
        assert!(answered_in_pass(committed, m, _score));
    }
    if list(ROOT).n == 0 {
        assert!(mv.is_none());
        assert!(clock.calls.get() == 0);
        // the search ends after the one empty pass, whatever the limit
        assert!(unsafe { PASSES } == 1 && clock.polls.get() == 1);
    }
    kani::cover!(mv.is_some());
    kani::cover!(mv.is_none() && list(ROOT).n > 0);
    kani::cover!(mv.is_none() && list(ROOT).n == 0);
}
}
// harness: c11_root_loop_returns_a_legal_move_for_every_expiry_instant

search_harness! {
#[kani::proof]
#[kani::unwind(5)]
pub fn c11_first_pass_commits_and_visits_every_move_once() {
    let board = setup_root();
    let probe = anyv::mv();
    // the limit cannot expire during pass 0 and expires as soon as pass 1 starts
    let mut clock = new_clock(u32::MAX, probe, None, 1);
    clock.expire_with_second_pass = true;
    let tf = ThreeFold::default();
    let mut engine = Engine::default();
    let (mv, _score) = engine.search(&board, &tf, &clock);
    assert!(!clock.illegal_call.get());
    kani::assume(list(ROOT).n > 0);
    assert!(mv.is_some());
    assert!(in_list(mv.unwrap()));
    // pass 0 searched every move of the position exactly once (and nothing else)
    unsafe {
        let pass0 = if PASSES >= 2 { PROBE_PASS0 } else { PROBE_THIS };
        assert!(pass0 == in_list(probe) as u32);
        assert!(PROBE_THIS <= 1 && PROBE_MAX <= 1);
    }
    kani::cover!(unsafe { PASSES } >= 2);
    kani::cover!(unsafe { PASSES } == 1);
}
}
// harness: c11_first_pass_commits_and_visits_every_move_once

// ------------------------------------------------------------------------------------- C12

search_harness! {
#[kani::proof]
#[kani::unwind(5)]
pub fn c12_root_reports_mate_in_one_truthfully() {
    let board = setup_root();
    let us = board.turn();
    let k: u32 = kani::any();
    kani::assume(k <= KMAX);
    let clock = new_clock(k, anyv::mv(), Some(us), 1);
    let tf = ThreeFold::default();
    let mut engine = Engine::default();
    let (mv, score) = engine.search(&board, &tf, &clock);
    let mate1 = match us {
        Color::White => Score::WhiteMateIn(1),
        Color::Black => Score::BlackMateIn(1),
    };
    // truthfulness: reported mate in one => some searched move really answered mate in one
    if score == mate1 {
        assert!(clock.saw_mate_answer.get());
        assert!(mv.is_some());
    }
    // completeness: a mate-in-one answer in a search that committed a result and was not cut
    // short => reported (nothing beats mate in one for the mover; deepening stops on it)
    if clock.saw_mate_answer.get() && mv.is_some() && !clock.expired() {
        assert!(score == mate1);
    }
    kani::cover!(score == mate1);
    kani::cover!(clock.saw_mate_answer.get() && score != mate1);
}
}
// harness: c12_root_reports_mate_in_one_truthfully

// ---------------------------------------------------------------- one level of the recursion
/// ONE real call of the recursive search (through the hook `Engine::verif_alphabeta`), at an
/// arbitrary depth d, with the calls it makes (depth d+1) answered by the oracle under contracts
/// A and M(d+1); make-move, the child's move list, evaluation and the repetition count are
/// arbitrary. Decided for the real code:
///  * contract A: if the limit has not expired when it returns, the score is not a sentinel;
///  * contract M(d): a mate score it returns has distance >= d, and distance exactly d is returned
///    iff the position after the move has no legal move and is in check (C12's terminal test),
///    with the colour of the side that delivered the mate;
///  * no legal move and not in check, fifty-move clock >= 100, third repetition: draw (Raw 0).
/// This closes the induction over the recursion depth that the root queries rely on.
fn unit_level(white_policy: bool) {
    let parent = any_root_board();
    unsafe { LISTS[ROOT] = Some(List::any()) };
    let mv = anyv::mv();
    let d: u16 = kani::any();
    kani::assume(d >= 1 && d <= 1000);
    let rem: u16 = kani::any();
    let k: u32 = kani::any();
    kani::assume(k <= 3);
    let clock = new_clock(k, mv, None, 0);
    // run exactly one call for real (the one at depth d), answer everything it calls
    let clock = Clock { count_rule: true, real_calls_left: Cell::new(1), ..clock };
    let tf = ThreeFold::default();
    let mut engine = Engine::default();
    let alpha = anyv::score();
    let beta = anyv::score();
    unsafe { PASSES = 1 };
    let s = engine.verif_alphabeta(white_policy, mv, &parent, &tf, &clock, rem, d, alpha, beta);
    let child = unsafe { LISTS[CHILD] };
    // the side that just moved is the opposite of the policy's colour
    let mate_now = if white_policy { Score::BlackMateIn(d) } else { Score::WhiteMateIn(d) };
    // contract A
    if !clock.expired() {
        assert!(!matches!(s, Score::Min | Score::Max));
    }
    // contract M(d)
    match s {
        Score::WhiteMateIn(n) | Score::BlackMateIn(n) => assert!(n >= d),
        _ => {}
    }
    if let Some(c) = child {
        // the child position's list was asked for: terminal test on it
        if c.n == 0 {
            // no legal move: mate for the side that moved iff in check, else a draw
            assert!(s == if unsafe { CHILD_IN_CHECK } { mate_now } else { Score::Raw(0) });
        } else {
            // with a legal reply the position is not a mate in d for the side that moved
            assert!(s != mate_now);
        }
    } else {
        // the list was never asked for: only the insufficient-material draw (after a capture)
        // may return before the terminal test - in particular the fifty-move and repetition
        // draws must come AFTER it, or a mating move would be scored as a draw
        assert!(s == Score::Raw(0));
        let was_capture = parent.raw().get(mv.dest).is_some();
        let cb = unsafe { CHILD_BOARD }.unwrap();
        assert!(was_capture && engine.verif_insufficient_material(&cb));
    }
    kani::cover!(s == mate_now);
    kani::cover!(s == Score::Raw(0) && child.is_none());
    kani::cover!(matches!(s, Score::Raw(x) if x != 0));
}
search_harness! {
#[kani::proof]
#[kani::unwind(8)]
pub fn c12_one_level_white_policy_contracts_and_terminal_test() {
    unit_level(true)
}
}
// harness: c12_one_level_white_policy_contracts_and_terminal_test
search_harness! {
#[kani::proof]
#[kani::unwind(8)]
pub fn c12_one_level_black_policy_contracts_and_terminal_test() {
    unit_level(false)
}
}
// harness: c12_one_level_black_policy_contracts_and_terminal_test
