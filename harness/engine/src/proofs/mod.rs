pub mod c14;
pub mod c16;
pub mod c20;
mod playback_gen;
