pub mod c14;
pub mod c16;
pub mod c20;
pub mod c11;
pub mod c13;
pub mod c15;
mod playback_gen;
