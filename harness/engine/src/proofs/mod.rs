pub mod c14;
pub mod c16;
mod playback_gen;
