//! C16 - stable-ABI encodings of moves, optional moves and scores are lossless.
use crate::anyv;
use chess_api::{EvaluatedMove, StableChessMove};
use chess_engine::Score;
use chess_movegen::ChessMove;

#[kani::proof]
pub fn c16_move_roundtrip() {
    let m = anyv::mv();
    let s = StableChessMove::from(m);
    let back = ChessMove::from(s);
    assert!(back == m);
    assert!(back.source == m.source && back.dest == m.dest && back.piece == m.piece);
    kani::cover!(m.piece.is_none());
    kani::cover!(m.piece.is_some());
}

#[kani::proof]
pub fn c16_evaluated_move_roundtrip() {
    let m: Option<ChessMove> = if kani::any() { Some(anyv::mv()) } else { None };
    let sc = anyv::score();
    let e = EvaluatedMove::new(m, sc);
    assert!(e.chess_move() == m);
    assert!(e.score() == sc);
    // copies (the ABI struct is Copy and passed by value across the boundary) decode the same
    let e2 = e;
    assert!(e2.chess_move() == m && e2.score() == sc);
    // variant and payload are preserved exactly
    match (sc, e.score()) {
        (Score::Min, Score::Min) | (Score::Max, Score::Max) => {}
        (Score::BlackMateIn(a), Score::BlackMateIn(b)) => assert!(a == b),
        (Score::WhiteMateIn(a), Score::WhiteMateIn(b)) => assert!(a == b),
        (Score::Raw(a), Score::Raw(b)) => assert!(a == b),
        _ => assert!(false),
    }
    kani::cover!(m.is_none());
    kani::cover!(matches!(sc, Score::Raw(i32::MIN)));
}
