//! C13 - colour symmetry of the search: the equivariance lemmas.
//!
//! The end-to-end statement (search(mirror(B)) == -search(B) for every completed depth) is a
//! relation between two recursive searches and rests on a theorem - the root alpha-beta value does
//! not depend on move order - that a bounded query cannot supply. What IS decided here are the
//! places where a one-sided slip can live: the score negation map reverses the order, the White
//! and Black policies are each other's mirror image under it, the terminal (mate) values and the
//! colour constants are dual, and the material evaluation is antisymmetric under the board mirror.
use crate::anyv;
use chess_bitboard::{BitBoard, Color};
use chess_engine::verif as hook;
use chess_engine::{Engine, Score};
use core::cmp::Ordering;

/// colour swap on scores: Raw(x) <-> Raw(-x), WhiteMateIn(n) <-> BlackMateIn(n), Min <-> Max
fn neg(s: Score) -> Score {
    match s {
        Score::Min => Score::Max,
        Score::Max => Score::Min,
        Score::Raw(x) => Score::Raw(-x),
        Score::WhiteMateIn(n) => Score::BlackMateIn(n),
        Score::BlackMateIn(n) => Score::WhiteMateIn(n),
    }
}
fn any_score() -> Score {
    let s = anyv::score();
    // Raw(i32::MIN) has no negation; material scores are bounded by a few thousand (stated)
    if let Score::Raw(x) = s {
        kani::assume(x != i32::MIN);
    }
    s
}

#[kani::proof]
pub fn c13_negation_reverses_the_order() {
    let a = any_score();
    let b = any_score();
    assert!(neg(neg(a)) == a);
    assert!(neg(a).cmp(&neg(b)) == b.cmp(&a));
    assert!((neg(a) == neg(b)) == (a == b));
    kani::cover!(a.cmp(&b) == Ordering::Less);
}

#[kani::proof]
pub fn c13_policies_are_mirror_images() {
    let w = Color::White;
    let k = Color::Black;
    assert!(hook::policy_color(true) == w && hook::policy_color(false) == k);
    // extremes
    assert!(hook::worst_score(w) == neg(hook::worst_score(k)));
    assert!(hook::best_score(w) == neg(hook::best_score(k)));
    assert!(hook::worst_score(w) == Score::Min && hook::best_score(w) == Score::Max);
    // "is the new score better for me" is the same question after swapping colours
    let s = any_score();
    let n = any_score();
    assert!(hook::is_better(w, s, n) == hook::is_better(k, neg(s), neg(n)));
    assert!(hook::is_better(w, s, n) == (n > s));
    // the window update: White raises alpha exactly as Black lowers beta on the mirrored window
    let (a0, b0) = (any_score(), any_score());
    let (mut wa, mut wb) = (a0, b0);
    hook::update_cutoff(w, &mut wa, &mut wb, s);
    let (mut ka, mut kb) = (neg(b0), neg(a0));
    hook::update_cutoff(k, &mut ka, &mut kb, neg(s));
    assert!(ka == neg(wb) && kb == neg(wa));
    assert!(wb == b0 && wa == if s > a0 { s } else { a0 });
    // the cutoff test `beta <= alpha` is invariant under the mirror
    assert!((wb <= wa) == (kb <= ka));
    kani::cover!(wa != a0);
}

fn mirror(b: u64) -> u64 {
    b.swap_bytes()
}
fn board_from(colors: [u64; 2], pieces: [u64; 6], turn: Color, half: u16) -> chess_movegen::Board {
    use chess_movegen::raw::RawBoard;
    let bb = BitBoard::from_u64;
    chess_movegen::Board::verif_from_raw(
        RawBoard::verif_from_parts([bb(colors[0]), bb(colors[1])], [bb(pieces[0]), bb(pieces[1]), bb(pieces[2]), bb(pieces[3]), bb(pieces[4]), bb(pieces[5])]),
        chess_movegen::verif::VerifParts {
            zobrist: 0,
            turn,
            castle_rights: 0,
            enpassant: None,
            half_move_clock: half,
            full_move_clock: 0,
            pinned: BitBoard::empty(),
            checkers: BitBoard::empty(),
        },
    )
}

/// king-mobility term of the endgame evaluation replaced by a mirror-invariant function of the
/// position (it is generator output - `king_legals(colour).len()` -, whose colour symmetry is the
/// generator's, i.e. C01's): number of squares next to that king not occupied by its own men
fn stub_king_legals(b: &chess_movegen::Board, turn: Color) -> chess_movegen::MoveGen {
    let k = b.king_sq(turn);
    let own = b[turn];
    let around = chess_lookup::king_moves(k) & !own;
    chess_movegen::MoveGen::verif_from_entries(&[(k, around, false)], 0, !BitBoard::empty(), 0)
}

crate::engine_harness! {
#[kani::proof]
#[kani::unwind(10)]
#[kani::stub(chess_movegen::Board::king_legals, stub_king_legals)]
pub fn c13_evaluation_is_antisymmetric_under_the_mirror() {
    // any placement with one king each (evaluation reads piece counts, king squares, clock)
    let colors: [u64; 2] = [kani::any(), kani::any()];
    let pieces: [u64; 6] = [kani::any(), kani::any(), kani::any(), kani::any(), kani::any(), kani::any()];
    kani::assume(colors[0] & colors[1] == 0);
    kani::assume((pieces[5] & colors[0]).count_ones() == 1 && (pieces[5] & colors[1]).count_ones() == 1 && pieces[5].count_ones() == 2);
    let mut p = 0;
    while p < 5 {
        kani::assume(pieces[p] & pieces[5] == 0);
        let mut q = 0;
        while q < p {
            kani::assume(pieces[p] & pieces[q] == 0);
            q += 1;
        }
        p += 1;
    }
    kani::assume(pieces[0] | pieces[1] | pieces[2] | pieces[3] | pieces[4] | pieces[5] == colors[0] | colors[1]);
    // at most 16 men a side: the material sums stay far inside i32
    kani::assume(colors[0].count_ones() <= 16 && colors[1].count_ones() <= 16);
    let turn = anyv::color();
    let half: u16 = kani::any();
    let b = board_from(colors, pieces, turn, half);
    let mp = [mirror(pieces[0]), mirror(pieces[1]), mirror(pieces[2]), mirror(pieces[3]), mirror(pieces[4]), mirror(pieces[5])];
    let m = board_from([mirror(colors[1]), mirror(colors[0])], mp, !turn, half);
    let mut e = Engine::default();
    assert!(!e.positional); // the shipped configuration
    let depth: u16 = kani::any();
    let s1 = e.verif_eval(&b, depth);
    let s2 = e.verif_eval(&m, depth);
    assert!(matches!(s1, Score::Raw(_)));
    assert!(s2 == neg(s1));
    // insufficient material is colour blind
    assert!(e.verif_insufficient_material(&b) == e.verif_insufficient_material(&m));
    kani::cover!(matches!(s1, Score::Raw(x) if x > 0));
}
}
// harness: c13_evaluation_is_antisymmetric_under_the_mirror
