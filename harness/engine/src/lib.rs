//! Kani harnesses over chess-engine / chess-api / chess-bot / tracing-enabled (path deps on /repo).
#![allow(dead_code, unused_imports, clippy::all)]
#[cfg(kani)]
pub mod proofs;

#[cfg(kani)]
pub mod anyv {
    use chess_bitboard::{Pos, PromotionPiece};
    use chess_engine::Score;
    use chess_movegen::ChessMove;
    pub fn pos() -> Pos {
        let x: u8 = kani::any();
        kani::assume(x < 64);
        Pos::from_u8(x).unwrap()
    }
    pub fn promo() -> Option<PromotionPiece> {
        let x: u8 = kani::any();
        kani::assume(x < 5);
        match x {
            0 => Some(PromotionPiece::Knight),
            1 => Some(PromotionPiece::Bishop),
            2 => Some(PromotionPiece::Rook),
            3 => Some(PromotionPiece::Queen),
            _ => None,
        }
    }
    pub fn bb() -> chess_bitboard::BitBoard {
        chess_bitboard::BitBoard::from_u64(kani::any())
    }
    pub fn color() -> chess_bitboard::Color {
        if kani::any() {
            chess_bitboard::Color::White
        } else {
            chess_bitboard::Color::Black
        }
    }
    pub fn mv() -> ChessMove {
        ChessMove { source: pos(), dest: pos(), piece: promo() }
    }
    pub fn score() -> Score {
        let k: u8 = kani::any();
        kani::assume(k < 5);
        match k {
            0 => Score::Min,
            1 => Score::BlackMateIn(kani::any()),
            2 => Score::Raw(kani::any()),
            3 => Score::WhiteMateIn(kani::any()),
            _ => Score::Max,
        }
    }
}
