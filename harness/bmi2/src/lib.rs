//! chess-bitboard compiled with `--cfg target_feature="bmi2"` forced, so that the *shipped*
//! BitBoardIter::nth (the PDEP path selected by /repo/.cargo/config.toml's -Ctarget-cpu=native on
//! BMI2 hardware) is what Kani compiles. Kani's backend ignores -Ctarget-feature but forwards --cfg.
#![allow(dead_code, unused_imports)]
#[cfg(kani)]
pub mod proofs;
