pub mod c18_bmi2;
mod playback_gen;
