//! C18 (nth clause) / C07 - the BMI2 implementation of BitBoardIter::nth.
use chess_bitboard::{BitBoard, Pos};

/// Intel SDM pseudo-code of PDEP r64, r64, r/m64 (trusted model of the instruction):
///   TEMP <- SRC1; MASK <- SRC2; DEST <- 0; m <- 0; k <- 0
///   DO WHILE m < OperandSize: IF MASK[m] = 1 THEN DEST[m] <- TEMP[k]; k <- k+1 FI; m <- m+1 OD
pub fn pdep_model(a: u64, mask: u64) -> u64 {
    let mut dest = 0u64;
    let mut k = 0u32;
    let mut m = 0u32;
    while m < 64 {
        if (mask >> m) & 1 == 1 {
            dest |= ((a >> k) & 1) << m;
            k += 1;
        }
        m += 1;
    }
    dest
}

/// "skip n then next" on a set, declaratively: the n-th element is the member with exactly n
/// smaller members; afterwards exactly the members greater than it remain. If fewer than n+1
/// members exist the answer is None and nothing remains.
fn nth_ok(b: u64, n: usize, got: Option<u8>, rest: u64) -> bool {
    if (n as u128) < b.count_ones() as u128 {
        match got {
            None => false,
            Some(p) => {
                let below = (1u64 << p) - 1;
                (b >> p) & 1 == 1 && (b & below).count_ones() as usize == n && rest == b & !below & !(1u64 << p)
            }
        }
    } else {
        got.is_none() && rest == 0
    }
}

/// all boards x all n (unrestricted usize). Default checks ON (shift overflow, etc.).
#[cfg(target_feature = "bmi2")]
#[kani::proof]
#[kani::unwind(66)]
#[kani::stub(core::arch::x86_64::_pdep_u64, pdep_model)]
pub fn c18_bmi2_nth() {
    let b: u64 = kani::any();
    let n: usize = kani::any();
    let mut it = BitBoard::from_u64(b).iter();
    let got = it.nth(n);
    // post-state is compared through the public PartialEq of the iterator
    let rest = match got {
        Some(p) => b & !((1u64 << (p as u8)) - 1) & !(1u64 << (p as u8)),
        None => 0,
    };
    assert!(nth_ok(b, n, got.map(|p| p as u8), rest));
    assert!(it == BitBoard::from_u64(rest).iter());
    kani::cover!(n == 63 && got.is_some());
    kani::cover!(n == 0 && got.is_some());
    kani::cover!(n >= 64);
    kani::cover!(n < 64 && got.is_none() && b != 0);
}

/// the cfg really selected the PDEP path (otherwise the harnesses above would not exist and the
/// group would silently be empty): this harness always exists and fails if bmi2 is not forced.
#[kani::proof]
pub fn c18_bmi2_cfg_selected() {
    assert!(cfg!(target_feature = "bmi2"));
}
